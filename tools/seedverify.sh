#!/bin/bash
# Verify a seeded change: tools/seedverify.sh <dir with patch.diff and demo_test.go>
# Prints: suite-with-change, demo-with-change (must FAIL), demo-without-change (must PASS).
set -u
d="$(readlink -f "$1")"
export GOFLAGS=-mod=mod GOPROXY=off GOSUMDB=off GOTOOLCHAIN=local
w="$(mktemp -d /tmp/sv.XXXXXX)"; trap 'rm -rf "$w"' EXIT
mkdir -p "$w/a" "$w/b"
(cd /repo && git archive HEAD) | tar -x -C "$w/a"
(cd /repo && git archive HEAD) | tar -x -C "$w/b"
(cd "$w/a" && patch -p1 -s < "$d/patch.diff") || { echo "PATCH-FAILS"; exit 3; }
race=""; grep -q "go test -race\|-race" "$d/notes.md" 2>/dev/null && race="-race"
if (cd "$w/a" && go build ./... && go test -vet=off -count=1 ./... > "$w/suite.log" 2>&1); then s1=PASS; else s1=FAIL; fi
cp "$d/demo_test.go" "$w/a/zz_demo_test.go"; cp "$d/demo_test.go" "$w/b/zz_demo_test.go"
if (cd "$w/a" && CGO_ENABLED=1 go test $race -vet=off -count=1 -run TestDemo . > "$w/demoA.log" 2>&1); then s2=PASS; else s2=FAIL; fi
if (cd "$w/b" && CGO_ENABLED=1 go test $race -vet=off -count=1 -run TestDemo . > "$w/demoB.log" 2>&1); then s3=PASS; else s3=FAIL; fi
echo "suite_with_change=$s1 demo_with_change=$s2 demo_without_change=$s3 race=$race"
[ "$s1" = PASS ] && [ "$s2" = FAIL ] && [ "$s3" = PASS ]
