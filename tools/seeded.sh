#!/bin/bash
# Run the registered checks against every seeded change (each on its own scratch copy of /repo).
#   tools/seeded.sh [seed-dir ...]      default: all of /verif/seeded/*
# For each seed the checks listed in meta.json ("checks") are run at quick tier; output: one line per (seed, check).
HERE="$(cd "$(dirname "${BASH_SOURCE[0]}")/.." && pwd)"
cd "$HERE"
seeds=("$@"); [ ${#seeds[@]} -eq 0 ] && seeds=(seeded/C*/)
for s in "${seeds[@]}"; do
  s="${s%/}"
  checks=$(python3 -c "import json,sys; print(' '.join(json.load(open('$s/meta.json'))['checks']))" 2>/dev/null)
  [ -z "$checks" ] && checks="$(basename "$s" | cut -d- -f1)"
  for c in $checks; do
    out=$(MUT_SKIP_TESTS=1 MUT_SHOW=3 timeout 3000 tools/mut.sh "$s/patch.diff" $c 2>&1)
    echo "$out" | grep "^== " | while read -r line; do echo "$(basename "$s") $line"; done
    echo "$out" | grep "^violation" | head -3 | sed "s/^/    /" | cut -c1-220
  done
done
