#!/usr/bin/env python3
"""Builds /verif/seeded/README.md and updates every seeded/<id>/meta.json from result files
written by tools/seeded.sh.

  tools/seedtable.py --first <file>... --final <file>...

--first: results of the run made when the seeds were first met (before any strengthening that
their descriptions prompted); --final: results with the checks as committed. Later files override
earlier ones for the same (seed, check)."""
import sys, re, json, os, collections

def load(paths):
    res, sigs = collections.OrderedDict(), {}
    for path in paths:
        cur = None
        for l in open(path):
            m = re.match(r'^(C\d\d-[A-H]) == (C\d\d) exit=(\d+): (\d+) violation', l)
            if m:
                cur = (m.group(1), m.group(2)); res[cur] = int(m.group(3)); sigs[cur] = []
            elif l.startswith('    violation sig=') and cur:
                sigs[cur].append(re.sub(r' count=\d+', '', l.strip()[len('violation sig='):]))
    return res, sigs

def short(seed):
    for l in open('/verif/seeded/%s/notes.md' % seed).read().strip().split('\n'):
        l = l.strip('# ').strip()
        if l and not l.lower().startswith('notes'):
            l = re.sub(r'^C\d\d\s*/\s*(seeded\s+)?(change|defect)?\s*[A-H]\s*[—:-]+\s*', '', l, flags=re.I)
            return l[:170]
    return ''

def main():
    args = sys.argv[1:]
    first, final, mode = [], [], None
    for a in args:
        if a in ('--first', '--final'):
            mode = a
        elif mode == '--first':
            first.append(a)
        else:
            final.append(a)
    fres, _ = load(first)
    res, sigs = load(final)
    seeds = sorted(d for d in os.listdir('/verif/seeded') if os.path.isdir('/verif/seeded/' + d) and re.match(r'^C\d\d-[A-H]$', d))
    rows = []
    for s in seeds:
        mp = '/verif/seeded/%s/meta.json' % s
        meta = json.load(open(mp))
        det = [c for (sd, c), rc in res.items() if sd == s and rc == 1]
        miss = [c for (sd, c), rc in res.items() if sd == s and rc != 1]
        fdet = [c for (sd, c), rc in fres.items() if sd == s and rc == 1]
        meta['detected_by'] = det
        meta['not_detected_by'] = miss
        meta['detected_at_first_contact_by'] = fdet
        meta['example_signatures'] = {c: sigs[(s, c)][:3] for c in det}
        meta['ran'] = 'tools/seeded.sh seeded/%s (quick tier, scratch copy of /repo with patch.diff applied)' % s
        json.dump(meta, open(mp, 'w'), indent=1)
        rows.append((s, meta))
    n = len(rows); nd = sum(1 for _, m in rows if m['detected_by']); nf = sum(1 for _, m in rows if m['detected_at_first_contact_by'])
    with open('/verif/seeded/README.md', 'w') as f:
        f.write('# Independently seeded property-breaking changes\n\n'
                'Written by fresh sub-agents that saw only the text of one property and a scratch worktree of the library '
                '(round 1: seeds A, B; round 2: seeds C, D, asked to be subtler and to use other sites than round 1; round 3: seeds E, F, asked for sites and trigger kinds the earlier rounds had not used; round 4: seeds G, H, written after the cross corpus and the decorated variants had been added). Seeds that a later `fix:` commit neutralised are under `_moot/`. '
                'Each directory holds `patch.diff`, `demo_test.go` (fails with the change, passes without; copy to the repository root as '
                '`zz_demo_test.go` and run `go test -run TestDemo .`), the author\'s `notes.md` and `meta.json`. '
                'Every seed keeps the repository\'s own 383 tests green (re-verified with `tools/seedverify.sh`).\n\n'
                '%d seeds; %d were caught the first time the checks met them, %d are caught by the checks as committed '
                '(the difference is what the seeds taught: see DESIGN.md §11.2 for which alphabets were extended). '
                'Reproduce with `tools/seeded.sh` (quick tier).\n\n'
                '| seed | what it is | caught at first contact | caught now (example signature) | still missed by |\n|---|---|---|---|---|\n' % (n, nf, nd))
        for s, m in rows:
            now = ', '.join('%s (`%s`)' % (c, (m['example_signatures'][c] or ['?'])[0][:80].replace('|', '\\|')) for c in m['detected_by']) or '—'
            f.write('| %s | %s | %s | %s | %s |\n' % (s, short(s).replace('|', '\\|'), ', '.join(m['detected_at_first_contact_by']) or '—', now, ', '.join(m['not_detected_by'])))
    print('%d seeds, first contact %d, now %d' % (n, nf, nd))

main()
