// instr generates a `go build -overlay` for go-domdistiller's current working tree.
//
//	instr -repo /repo -out DIR [-plain]
//
// It type-checks every package of the repository's module that the root package depends on,
// rewrites the ASTs to insert verifrt hooks (see /verif/DESIGN.md §3.1) and writes
// DIR/overlay.json. /repo is never written. With -plain only the virtual verifrt package is
// added (fallback when rewriting fails).
package main

import (
	"bytes"
	"encoding/json"
	"flag"
	"fmt"
	"go/ast"
	"go/format"
	"go/importer"
	"go/parser"
	"go/token"
	"go/types"
	"io"
	"os"
	"os/exec"
	"path/filepath"
	"sort"
	"strconv"
	"strings"
)

type listPkg struct {
	ImportPath string
	Dir        string
	Name       string
	GoFiles    []string
	CgoFiles   []string
	Export     string
	Standard   bool
	ImportMap  map[string]string
	Module     *struct {
		Path string
		Main bool
		Dir  string
	}
	Error *struct{ Err string }
}

var (
	repo    = flag.String("repo", "/repo", "repository root")
	out     = flag.String("out", "", "output directory")
	plain   = flag.Bool("plain", false, "only add the verifrt package")
	rtDir   = flag.String("rt", "/verif/verifrt", "directory holding the verifrt sources")
	verbose = flag.Bool("v", false, "verbose")
)

var (
	fset    = token.NewFileSet()
	sites   []string
	varIDs  = map[types.Object]int{}
	varName []string
	notes   []string
	modPath string
	stats   = map[string]int{}
)

func die(f string, a ...any) {
	fmt.Fprintf(os.Stderr, "instr: "+f+"\n", a...)
	os.Exit(2)
}

func main() {
	flag.Parse()
	if *out == "" {
		die("-out required")
	}
	must(os.MkdirAll(*out, 0o755))
	overlay := map[string]string{}

	if !*plain {
		pkgs := goList()
		byPath := map[string]*listPkg{}
		for _, p := range pkgs {
			byPath[p.ImportPath] = p
		}
		for _, p := range pkgs {
			if p.Module != nil && p.Module.Main {
				modPath = p.Module.Path
			}
		}
		if modPath == "" {
			die("main module not found")
		}
		for _, p := range pkgs {
			if p.Module == nil || !p.Module.Main || p.Standard {
				continue
			}
			instrumentPkg(p, byPath, overlay)
		}
	} else {
		modPath = modulePathFromGoMod()
	}

	// virtual runtime package
	rtOut := filepath.Join(*out, "verifrt")
	must(os.MkdirAll(rtOut, 0o755))
	ents, err := os.ReadDir(*rtDir)
	must(err)
	for _, e := range ents {
		if !strings.HasSuffix(e.Name(), ".go") || strings.HasSuffix(e.Name(), "_test.go") {
			continue
		}
		b, err := os.ReadFile(filepath.Join(*rtDir, e.Name()))
		must(err)
		dst := filepath.Join(rtOut, e.Name())
		must(os.WriteFile(dst, b, 0o644))
		overlay[filepath.Join(*repo, "verifrt", e.Name())] = dst
	}
	var gen bytes.Buffer
	fmt.Fprintf(&gen, "package verifrt\n\nfunc init() {\n\tInstrumented = %v\n", !*plain)
	fmt.Fprintf(&gen, "\tSites = []string{\n")
	for _, s := range sites {
		fmt.Fprintf(&gen, "\t\t%q,\n", s)
	}
	fmt.Fprintf(&gen, "\t}\n\tVars = []string{\n")
	for _, s := range varName {
		fmt.Fprintf(&gen, "\t\t%q,\n", s)
	}
	fmt.Fprintf(&gen, "\t}\n\tNotes = []string{\n")
	for _, s := range notes {
		fmt.Fprintf(&gen, "\t\t%q,\n", s)
	}
	fmt.Fprintf(&gen, "\t}\n}\n")
	dst := filepath.Join(rtOut, "sites_gen.go")
	must(os.WriteFile(dst, gen.Bytes(), 0o644))
	overlay[filepath.Join(*repo, "verifrt", "sites_gen.go")] = dst

	ob, _ := json.MarshalIndent(map[string]any{"Replace": overlay}, "", " ")
	must(os.WriteFile(filepath.Join(*out, "overlay.json"), ob, 0o644))
	keys := make([]string, 0, len(stats))
	for k := range stats {
		keys = append(keys, k)
	}
	sort.Strings(keys)
	var sb strings.Builder
	for _, k := range keys {
		fmt.Fprintf(&sb, " %s=%d", k, stats[k])
	}
	fmt.Printf("instr: plain=%v files=%d sites=%d vars=%d notes=%d%s\n", *plain, len(overlay), len(sites), len(varName), len(notes), sb.String())
	if *verbose {
		for _, n := range notes {
			fmt.Println("instr: note:", n)
		}
	}
}

func must(err error) {
	if err != nil {
		die("%v", err)
	}
}

func modulePathFromGoMod() string {
	b, err := os.ReadFile(filepath.Join(*repo, "go.mod"))
	must(err)
	for _, l := range strings.Split(string(b), "\n") {
		l = strings.TrimSpace(l)
		if strings.HasPrefix(l, "module ") {
			return strings.TrimSpace(strings.TrimPrefix(l, "module "))
		}
	}
	die("no module line in go.mod")
	return ""
}

func goList() []*listPkg {
	cmd := exec.Command("go", "list", "-export", "-deps", "-json", ".")
	cmd.Dir = *repo
	cmd.Stderr = os.Stderr
	outp, err := cmd.Output()
	if err != nil {
		die("go list failed: %v", err)
	}
	dec := json.NewDecoder(bytes.NewReader(outp))
	var pkgs []*listPkg
	for {
		var p listPkg
		if err := dec.Decode(&p); err == io.EOF {
			break
		} else if err != nil {
			die("decoding go list output: %v", err)
		}
		if p.Error != nil {
			die("go list: %s: %s", p.ImportPath, p.Error.Err)
		}
		pkgs = append(pkgs, &p)
	}
	return pkgs
}

// ---------------------------------------------------------------------------------------------

type pkgCtx struct {
	sawHook bool
	lp      *listPkg
	info    *types.Info
	tpkg    *types.Package
	relDir  string
	fn      string // current function name for site labels
	relFile string
	tmpN    int
}

func instrumentPkg(p *listPkg, byPath map[string]*listPkg, overlay map[string]string) {
	if len(p.CgoFiles) > 0 {
		notes = append(notes, "package "+p.ImportPath+" uses cgo: not instrumented")
		return
	}
	var files []*ast.File
	for _, f := range p.GoFiles {
		af, err := parser.ParseFile(fset, filepath.Join(p.Dir, f), nil, parser.ParseComments|parser.SkipObjectResolution)
		if err != nil {
			die("parse %s: %v", f, err)
		}
		files = append(files, af)
	}
	lookup := func(path string) (io.ReadCloser, error) {
		if m, ok := p.ImportMap[path]; ok {
			path = m
		}
		dp := byPath[path]
		if dp == nil || dp.Export == "" {
			return nil, fmt.Errorf("no export data for %s", path)
		}
		return os.Open(dp.Export)
	}
	conf := types.Config{Importer: importer.ForCompiler(fset, "gc", lookup), Error: func(err error) {}}
	info := &types.Info{
		Types:      map[ast.Expr]types.TypeAndValue{},
		Uses:       map[*ast.Ident]types.Object{},
		Defs:       map[*ast.Ident]types.Object{},
		Selections: map[*ast.SelectorExpr]*types.Selection{},
	}
	tpkg, err := conf.Check(p.ImportPath, fset, files, info)
	if err != nil {
		die("type-check %s: %v", p.ImportPath, err)
	}
	rel, _ := filepath.Rel(*repo, p.Dir)
	c := &pkgCtx{lp: p, info: info, tpkg: tpkg, relDir: rel}
	for i, af := range files {
		name := p.GoFiles[i]
		c.relFile = filepath.Join(rel, name)
		if hasDirective(af) {
			notes = append(notes, c.relFile+": has //go: directive or embed; left uninstrumented")
			continue
		}
		changed := c.rewriteFile(af)
		if !changed {
			continue
		}
		af.Comments = nil
		var buf bytes.Buffer
		if err := format.Node(&buf, fset, af); err != nil {
			die("print %s: %v", c.relFile, err)
		}
		dst := filepath.Join(*out, "src", rel, name)
		must(os.MkdirAll(filepath.Dir(dst), 0o755))
		must(os.WriteFile(dst, buf.Bytes(), 0o644))
		overlay[filepath.Join(p.Dir, name)] = dst
	}
}

func hasDirective(f *ast.File) bool {
	for _, cg := range f.Comments {
		for _, c := range cg.List {
			if strings.HasPrefix(c.Text, "//go:embed") || strings.HasPrefix(c.Text, "//go:linkname") {
				return true
			}
		}
	}
	for _, im := range f.Imports {
		if im.Path.Value == `"C"` || im.Path.Value == `"embed"` {
			return true
		}
	}
	return false
}

func (c *pkgCtx) site(pos token.Pos, what string) *ast.BasicLit {
	p := fset.Position(pos)
	sites = append(sites, fmt.Sprintf("%s:%d %s %s", c.relFile, p.Line, c.fn, what))
	stats[what]++
	return &ast.BasicLit{Kind: token.INT, Value: strconv.Itoa(len(sites) - 1)}
}

func rtCall(fn string, args ...ast.Expr) *ast.CallExpr {
	return &ast.CallExpr{Fun: &ast.SelectorExpr{X: ast.NewIdent("verifrt"), Sel: ast.NewIdent(fn)}, Args: args}
}

func (c *pkgCtx) fresh(prefix string) *ast.Ident {
	c.tmpN++
	return ast.NewIdent(fmt.Sprintf("%s__%d", prefix, c.tmpN))
}

func (c *pkgCtx) rewriteFile(f *ast.File) bool {
	before := len(sites)
	c.sawHook = false
	for _, d := range f.Decls {
		switch d := d.(type) {
		case *ast.FuncDecl:
			if d.Body == nil {
				continue
			}
			c.fn = d.Name.Name
			if d.Recv != nil && len(d.Recv.List) > 0 {
				c.fn = recvName(d.Recv.List[0].Type) + "." + d.Name.Name
			}
			c.rewriteFuncBody(d.Body, d.Pos())
		case *ast.GenDecl:
			// function literals in package-level initialisers
			c.fn = "<pkg-init>"
			ast.Inspect(d, func(n ast.Node) bool {
				if fl, ok := n.(*ast.FuncLit); ok {
					c.rewriteFuncBody(fl.Body, fl.Pos())
					return false
				}
				return true
			})
		}
	}
	if len(sites) == before && !c.sawHook {
		return false
	}
	addImport(f)
	return true
}

func recvName(e ast.Expr) string {
	switch e := e.(type) {
	case *ast.StarExpr:
		return recvName(e.X)
	case *ast.Ident:
		return e.Name
	case *ast.IndexExpr:
		return recvName(e.X)
	case *ast.IndexListExpr:
		return recvName(e.X)
	}
	return "?"
}

func addImport(f *ast.File) {
	path := strconv.Quote(modPath + "/verifrt")
	spec := &ast.ImportSpec{Path: &ast.BasicLit{Kind: token.STRING, Value: path}}
	gd := &ast.GenDecl{Tok: token.IMPORT, Specs: []ast.Spec{spec}}
	f.Decls = append([]ast.Decl{gd}, f.Decls...)
	f.Imports = append(f.Imports, spec)
}

// rewriteFuncBody instruments one function body (and, recursively, the function literals in it).
func (c *pkgCtx) rewriteFuncBody(body *ast.BlockStmt, pos token.Pos) {
	// 1. expression-level rewrites and nested function literals
	c.rewriteExprs(body)
	// 2. statement lists
	c.rewriteLists(body)
	// 3. Enter hook
	enter := &ast.ExprStmt{X: rtCall("Enter", c.site(pos, "enter"))}
	body.List = append([]ast.Stmt{enter}, body.List...)
}

// rewriteExprs wraps node-write operands in verifrt.NW and handles nested FuncLits.
func (c *pkgCtx) rewriteExprs(body *ast.BlockStmt) {
	ast.Inspect(body, func(n ast.Node) bool {
		switch n := n.(type) {
		case *ast.FuncLit:
			saved := c.fn
			c.fn = saved + ".func"
			c.rewriteFuncBody(n.Body, n.Pos())
			c.fn = saved
			return false
		case *ast.AssignStmt:
			if n.Tok != token.DEFINE {
				for i := range n.Lhs {
					c.wrapNodeLHS(&n.Lhs[i])
				}
			}
		case *ast.IncDecStmt:
			c.wrapNodeLHS(&n.X)
		case *ast.CallExpr:
			c.wrapMutatorCall(n)
			c.shimSyncCall(n)
		case *ast.GoStmt:
			notes = append(notes, fmt.Sprintf("%s: go statement inside the library is outside the cooperative scheduler's control", fset.Position(n.Pos())))
		}
		return true
	})
}

var syncShims = map[string]string{
	"Mutex.Lock": "Lock", "Mutex.Unlock": "Unlock",
	"RWMutex.Lock": "RWLock", "RWMutex.Unlock": "RWUnlock", "RWMutex.RLock": "RLock", "RWMutex.RUnlock": "RUnlock",
	"Once.Do": "OnceDo",
}

// shimSyncCall rewrites x.Lock() into verifrt.Lock(&x) (and friends), also through embedded
// fields. Other uses of package sync are noted.
func (c *pkgCtx) shimSyncCall(call *ast.CallExpr) {
	se, ok := call.Fun.(*ast.SelectorExpr)
	if !ok {
		return
	}
	sel := c.info.Selections[se]
	if sel == nil || sel.Kind() != types.MethodVal {
		return
	}
	fn, ok := sel.Obj().(*types.Func)
	if !ok || fn.Pkg() == nil || (fn.Pkg().Path() != "sync" && fn.Pkg().Path() != "sync/atomic") {
		return
	}
	sig := fn.Type().(*types.Signature)
	rt := sig.Recv().Type()
	if p, ok := rt.(*types.Pointer); ok {
		rt = p.Elem()
	}
	named, ok := rt.(*types.Named)
	if !ok {
		return
	}
	shim, ok := syncShims[named.Obj().Name()+"."+fn.Name()]
	if !ok || fn.Pkg().Path() != "sync" {
		notes = append(notes, fmt.Sprintf("%s: %s.%s.%s is not modelled by the scheduler", fset.Position(call.Pos()), fn.Pkg().Path(), named.Obj().Name(), fn.Name()))
		return
	}
	// build the receiver expression, following embedded fields
	recv := se.X
	t := sel.Recv()
	idx := sel.Index()
	for _, fi := range idx[:len(idx)-1] {
		if p, ok := t.Underlying().(*types.Pointer); ok {
			t = p.Elem()
		}
		st, ok := t.Underlying().(*types.Struct)
		if !ok {
			notes = append(notes, fmt.Sprintf("%s: cannot resolve embedded sync receiver", fset.Position(call.Pos())))
			return
		}
		f := st.Field(fi)
		recv = &ast.SelectorExpr{X: recv, Sel: ast.NewIdent(f.Name())}
		t = f.Type()
	}
	if _, isPtr := t.Underlying().(*types.Pointer); !isPtr {
		recv = &ast.UnaryExpr{Op: token.AND, X: recv}
	}
	stats["syncshim"]++
	call.Fun = &ast.SelectorExpr{X: ast.NewIdent("verifrt"), Sel: ast.NewIdent(shim)}
	call.Args = append([]ast.Expr{recv}, call.Args...)
	c.sawHook = true
}

func (c *pkgCtx) isNodePtr(e ast.Expr) bool {
	tv, ok := c.info.Types[e]
	if !ok || tv.Type == nil {
		return false
	}
	pt, ok := tv.Type.(*types.Pointer)
	if !ok {
		return false
	}
	return isHTMLNode(pt.Elem())
}

func isHTMLNode(t types.Type) bool {
	nt, ok := t.(*types.Named)
	if !ok {
		return false
	}
	o := nt.Obj()
	return o.Name() == "Node" && o.Pkg() != nil && o.Pkg().Path() == "golang.org/x/net/html"
}

// wrapNodeLHS looks, along the operand chain of an assignment target, for the innermost
// expression of type *html.Node whose field is being written and wraps it in verifrt.NW.
func (c *pkgCtx) wrapNodeLHS(lhs *ast.Expr) {
	// walk down: Index/Selector/Star/Paren/Slice chain
	cur := lhs
	for {
		switch e := (*cur).(type) {
		case *ast.ParenExpr:
			cur = &e.X
		case *ast.IndexExpr:
			cur = &e.X
		case *ast.SliceExpr:
			cur = &e.X
		case *ast.StarExpr:
			cur = &e.X
		case *ast.SelectorExpr:
			if c.isNodePtr(e.X) {
				if isNWCall(e.X) {
					return
				}
				e.X = rtCall("NW", c.site(e.Pos(), "nodewrite"), e.X)
				return
			}
			if tv, ok := c.info.Types[e.X]; ok && tv.Type != nil && isHTMLNode(tv.Type) {
				// value-typed html.Node: cannot wrap; note it
				notes = append(notes, fmt.Sprintf("%s: write to field of html.Node value not hooked", fset.Position(e.Pos())))
				return
			}
			cur = &e.X
		default:
			return
		}
	}
}

func isNWCall(e ast.Expr) bool {
	ce, ok := e.(*ast.CallExpr)
	if !ok {
		return false
	}
	se, ok := ce.Fun.(*ast.SelectorExpr)
	if !ok {
		return false
	}
	id, ok := se.X.(*ast.Ident)
	return ok && id.Name == "verifrt" && se.Sel.Name == "NW"
}

var domMutators = map[string]bool{
	"SetAttribute": true, "RemoveAttribute": true, "AppendChild": true, "PrependChild": true,
	"DetachChild": true, "ReplaceChild": true, "RemoveNodes": true, "SetInnerHTML": true,
	"SetTextContent": true, "InsertBefore": true, "RemoveChild": true,
}
var nodeMutMethods = map[string]bool{"AppendChild": true, "InsertBefore": true, "RemoveChild": true}

func (c *pkgCtx) wrapMutatorCall(call *ast.CallExpr) {
	se, ok := call.Fun.(*ast.SelectorExpr)
	if !ok {
		return
	}
	mut := false
	if id, ok := se.X.(*ast.Ident); ok {
		if pn, ok := c.info.Uses[id].(*types.PkgName); ok {
			if pn.Imported().Path() == "github.com/go-shiori/dom" && domMutators[se.Sel.Name] {
				mut = true
			}
		}
	}
	if !mut && nodeMutMethods[se.Sel.Name] && c.isNodePtr(se.X) {
		mut = true
		if !isNWCall(se.X) {
			se.X = rtCall("NW", c.site(se.Pos(), "nodewrite"), se.X)
		}
	}
	if !mut {
		return
	}
	for i, a := range call.Args {
		if isNWCall(a) {
			continue
		}
		if c.isNodePtr(a) {
			call.Args[i] = rtCall("NW", c.site(a.Pos(), "nodewrite"), a)
		} else if tv, ok := c.info.Types[a]; ok && tv.Type != nil {
			// []*html.Node argument (RemoveNodes): hook each element at run time is not possible
			// here without evaluating twice; note it once.
			if sl, ok := tv.Type.Underlying().(*types.Slice); ok {
				if pt, ok := sl.Elem().(*types.Pointer); ok && isHTMLNode(pt.Elem()) {
					call.Args[i] = rtCall("NWs", c.site(a.Pos(), "nodewrite"), a)
				}
			}
		}
	}
}

// rewriteLists visits every statement list below body (not entering function literals, which
// were handled by rewriteExprs) and inserts Tick / Var hooks and the map-range rewrite.
func (c *pkgCtx) rewriteLists(body *ast.BlockStmt) {
	ast.Inspect(body, func(n ast.Node) bool {
		switch n := n.(type) {
		case *ast.FuncLit:
			return false
		case *ast.BlockStmt:
			n.List = c.rewriteList(n.List)
		case *ast.CaseClause:
			n.Body = c.rewriteList(n.Body)
		case *ast.CommClause:
			n.Body = c.rewriteList(n.Body)
		}
		return true
	})
}

func (c *pkgCtx) rewriteList(list []ast.Stmt) []ast.Stmt {
	outl := make([]ast.Stmt, 0, len(list)+4)
	for _, st := range list {
		switch st.(type) {
		case *ast.CaseClause, *ast.CommClause:
			return list // body of a switch/select: clauses are handled on their own
		}
		if isRtStmt(st) {
			outl = append(outl, st)
			continue
		}
		inner := st
		labeled := false
		for {
			ls, ok := inner.(*ast.LabeledStmt)
			if !ok {
				break
			}
			labeled = true
			inner = ls.Stmt
		}
		// Var hooks for the statement's header
		for _, m := range c.varMentions(inner) {
			outl = append(outl, &ast.ExprStmt{X: rtCall("Var", c.site(inner.Pos(), "var"),
				&ast.BasicLit{Kind: token.INT, Value: strconv.Itoa(m.id)}, ast.NewIdent(strconv.FormatBool(m.write)))})
		}
		switch s := inner.(type) {
		case *ast.ForStmt:
			s.Body.List = append([]ast.Stmt{&ast.ExprStmt{X: rtCall("Tick", c.site(s.Pos(), "tick"))}}, s.Body.List...)
		case *ast.RangeStmt:
			pre := c.rewriteMapRange(s, !labeled)
			outl = append(outl, pre...)
			s.Body.List = append([]ast.Stmt{&ast.ExprStmt{X: rtCall("Tick", c.site(s.Pos(), "tick"))}}, s.Body.List...)
		}
		outl = append(outl, st)
	}
	return outl
}

func isRtStmt(st ast.Stmt) bool {
	es, ok := st.(*ast.ExprStmt)
	if !ok {
		return false
	}
	ce, ok := es.X.(*ast.CallExpr)
	if !ok {
		return false
	}
	se, ok := ce.Fun.(*ast.SelectorExpr)
	if !ok {
		return false
	}
	id, ok := se.X.(*ast.Ident)
	return ok && id.Name == "verifrt"
}

func hasCall(e ast.Expr) bool {
	found := false
	ast.Inspect(e, func(n ast.Node) bool {
		switch x := n.(type) {
		case *ast.CallExpr, *ast.FuncLit:
			found = true
		case *ast.UnaryExpr:
			if x.Op == token.ARROW {
				found = true
			}
		}
		return !found
	})
	return found
}

func isBlank(e ast.Expr) bool {
	id, ok := e.(*ast.Ident)
	return e == nil || (ok && id.Name == "_")
}

// rewriteMapRange turns `for k, v := range m` into an iteration over verifrt.MapKeys. It
// returns statements to be inserted before the loop (hoisted operand), if any.
func (c *pkgCtx) rewriteMapRange(s *ast.RangeStmt, canHoist bool) []ast.Stmt {
	tv, ok := c.info.Types[s.X]
	if !ok || tv.Type == nil {
		return nil
	}
	mt, ok := tv.Type.Underlying().(*types.Map)
	if !ok {
		return nil
	}
	pos := fset.Position(s.Pos())
	bt, ok := mt.Key().Underlying().(*types.Basic)
	if !ok || bt.Info()&(types.IsInteger|types.IsFloat|types.IsString) == 0 {
		notes = append(notes, fmt.Sprintf("%s: range over map with unordered key type %s left to the runtime", pos, mt.Key()))
		return nil
	}
	var pre []ast.Stmt
	m := s.X
	if hasCall(m) {
		if !canHoist {
			notes = append(notes, fmt.Sprintf("%s: labeled range over a call-valued map left to the runtime", pos))
			return nil
		}
		tmp := c.fresh("vm")
		pre = append(pre, &ast.AssignStmt{Lhs: []ast.Expr{tmp}, Tok: token.DEFINE, Rhs: []ast.Expr{m}})
		m = tmp
	}
	siteLit := c.site(s.Pos(), "maprange")
	kv := c.fresh("vk")
	var prologue []ast.Stmt
	tok := s.Tok
	if tok == token.ILLEGAL {
		tok = token.DEFINE
	}
	if !isBlank(s.Key) {
		prologue = append(prologue, &ast.AssignStmt{Lhs: []ast.Expr{s.Key}, Tok: tok, Rhs: []ast.Expr{ast.NewIdent(kv.Name)}})
	}
	okv := c.fresh("vok")
	idx := &ast.IndexExpr{X: m, Index: ast.NewIdent(kv.Name)}
	if !isBlank(s.Value) {
		if tok == token.DEFINE {
			prologue = append(prologue, &ast.AssignStmt{Lhs: []ast.Expr{s.Value, okv}, Tok: token.DEFINE, Rhs: []ast.Expr{idx}})
		} else {
			prologue = append(prologue,
				&ast.DeclStmt{Decl: &ast.GenDecl{Tok: token.VAR, Specs: []ast.Spec{&ast.ValueSpec{Names: []*ast.Ident{okv}, Type: ast.NewIdent("bool")}}}},
				&ast.AssignStmt{Lhs: []ast.Expr{s.Value, ast.NewIdent(okv.Name)}, Tok: token.ASSIGN, Rhs: []ast.Expr{idx}})
		}
	} else {
		prologue = append(prologue, &ast.AssignStmt{Lhs: []ast.Expr{ast.NewIdent("_"), okv}, Tok: token.DEFINE, Rhs: []ast.Expr{idx}})
	}
	prologue = append(prologue, &ast.IfStmt{
		Cond: &ast.UnaryExpr{Op: token.NOT, X: ast.NewIdent(okv.Name)},
		Body: &ast.BlockStmt{List: []ast.Stmt{&ast.BranchStmt{Tok: token.CONTINUE}}},
	})
	s.Key = ast.NewIdent("_")
	s.Value = kv
	s.Tok = token.DEFINE
	s.X = rtCall("MapKeys", siteLit, m)
	s.Body.List = append(prologue, s.Body.List...)
	return pre
}

type mention struct {
	id    int
	write bool
}

// headerParts returns the parts of a statement that are evaluated "at" the statement itself,
// i.e. excluding nested blocks.
func headerParts(st ast.Stmt) []ast.Node {
	var parts []ast.Node
	add := func(n ast.Node) {
		if n != nil && !isNilNode(n) {
			parts = append(parts, n)
		}
	}
	switch s := st.(type) {
	case *ast.IfStmt:
		for cur := s; cur != nil; {
			add(cur.Init)
			add(cur.Cond)
			next, _ := cur.Else.(*ast.IfStmt)
			cur = next
		}
	case *ast.ForStmt:
		add(s.Init)
		add(s.Cond)
		add(s.Post)
	case *ast.RangeStmt:
		add(s.X)
		if s.Tok == token.ASSIGN {
			add(s.Key)
			add(s.Value)
		}
	case *ast.SwitchStmt:
		add(s.Init)
		add(s.Tag)
		for _, cc := range s.Body.List {
			for _, e := range cc.(*ast.CaseClause).List {
				add(e)
			}
		}
	case *ast.TypeSwitchStmt:
		add(s.Init)
		add(s.Assign)
	case *ast.SelectStmt:
		for _, cc := range s.Body.List {
			add(cc.(*ast.CommClause).Comm)
		}
	case *ast.BlockStmt, *ast.LabeledStmt, *ast.EmptyStmt, *ast.BranchStmt:
	default:
		add(st)
	}
	return parts
}

func isNilNode(n ast.Node) bool {
	switch v := n.(type) {
	case ast.Expr:
		return v == nil
	case ast.Stmt:
		return v == nil
	}
	return false
}

func (c *pkgCtx) varMentions(st ast.Stmt) []mention {
	writes := map[*ast.Ident]bool{}
	var idents []*ast.Ident
	for _, part := range headerParts(st) {
		ast.Inspect(part, func(n ast.Node) bool {
			switch n := n.(type) {
			case *ast.FuncLit:
				return false
			case *ast.AssignStmt:
				if n.Tok != token.DEFINE {
					for _, l := range n.Lhs {
						if id := c.rootIdent(l); id != nil {
							writes[id] = true
						}
					}
				}
			case *ast.IncDecStmt:
				if id := c.rootIdent(n.X); id != nil {
					writes[id] = true
				}
			case *ast.CallExpr:
				if id, ok := n.Fun.(*ast.Ident); ok && len(n.Args) > 0 {
					if _, isB := c.info.Uses[id].(*types.Builtin); isB {
						switch id.Name {
						case "delete", "clear", "copy":
							if r := c.rootIdent(n.Args[0]); r != nil {
								writes[r] = true
							}
						}
					}
				}
			case *ast.Ident:
				idents = append(idents, n)
			}
			return true
		})
	}
	seen := map[mention]bool{}
	var outm []mention
	for _, id := range idents {
		obj, ok := c.info.Uses[id].(*types.Var)
		if !ok || obj.Pkg() == nil || obj.IsField() {
			continue
		}
		if obj.Parent() != obj.Pkg().Scope() {
			continue
		}
		if obj.Pkg().Path() != modPath && !strings.HasPrefix(obj.Pkg().Path(), modPath+"/") {
			continue
		}
		vid, ok := varIDs[keyObj(obj)]
		if !ok {
			vid = len(varName)
			varIDs[keyObj(obj)] = vid
			varName = append(varName, obj.Pkg().Path()[len(modPath):]+"."+obj.Name())
		}
		m := mention{vid, writes[id]}
		if !seen[m] {
			seen[m] = true
			outm = append(outm, m)
		}
	}
	return outm
}

// Objects for the same variable differ between the defining package (source) and importing
// packages (export data), so key them by qualified name.
var objKeys = map[string]types.Object{}

func keyObj(o types.Object) types.Object {
	k := o.Pkg().Path() + "." + o.Name()
	if e, ok := objKeys[k]; ok {
		return e
	}
	objKeys[k] = o
	return o
}

func (c *pkgCtx) rootIdent(e ast.Expr) *ast.Ident {
	for {
		switch x := e.(type) {
		case *ast.ParenExpr:
			e = x.X
		case *ast.IndexExpr:
			e = x.X
		case *ast.SliceExpr:
			e = x.X
		case *ast.StarExpr:
			e = x.X
		case *ast.SelectorExpr:
			if id, ok := x.X.(*ast.Ident); ok {
				if _, isPkg := c.info.Uses[id].(*types.PkgName); isPkg {
					return x.Sel
				}
			}
			e = x.X
		case *ast.Ident:
			return x
		default:
			return nil
		}
	}
}
