#!/usr/bin/env python3
import json, glob, sys
import jsonschema
ok = True
jsonschema.validate(json.load(open('/verif/MANIFEST.json')), json.load(open('/root/.vp/MANIFEST.schema.json')))
print("MANIFEST ok")
es = json.load(open('/root/.vp/EVIDENCE.schema.json'))
for f in sorted(glob.glob('/verif/evidence/*.json')):
    try:
        jsonschema.validate(json.load(open(f)), es); print('ok', f)
    except Exception as e:
        ok = False; print('BAD', f, str(e)[:300])
sys.exit(0 if ok else 1)
