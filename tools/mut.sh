#!/bin/bash
# Run checks against a scratch copy of /repo with a patch applied (never touches /repo).
#   tools/mut.sh <patch.diff> <ID> [ID...]      (tier via VERIF_TIER, default quick)
# Prints, per check, the exit status and the VIOLATION / summary lines. Also runs the repo's own
# test suite on the patched copy unless MUT_SKIP_TESTS=1.
set -u
HERE="$(cd "$(dirname "${BASH_SOURCE[0]}")/.." && pwd)"
patch="$(readlink -f "$1")"; shift
export GOFLAGS=-mod=mod GOPROXY=off GOSUMDB=off GOTOOLCHAIN=local
w="$(mktemp -d /tmp/mut.XXXXXX)"
trap 'rm -rf "$w"' EXIT
mkdir -p "$w/repo" "$w/root"
(cd /repo && git archive HEAD) | tar -x -C "$w/repo"
(cd "$w/repo" && patch -p1 -s < "$patch") || { echo "patch does not apply"; exit 3; }
cp "$HERE/known-findings.txt" "$w/root/"
if [ "${MUT_SKIP_TESTS:-0}" != 1 ]; then
  if (cd "$w/repo" && go build ./... && go test -vet=off -count=1 ./... > "$w/test.log" 2>&1); then echo "repo tests: PASS"; else echo "repo tests: FAIL"; grep -v "^ok\|no test files" "$w/test.log" | head -20; fi
fi
for id in "$@"; do
  VERIF_REPO="$w/repo" VERIF_ROOT="$w/root" "$HERE/check" "$id" "${VERIF_TIER:-quick}" > "$w/out.$id" 2>&1
  rc=$?
  echo "== $id exit=$rc: $(grep -c '^VIOLATION' "$w/out.$id") violation line(s)"
  grep '^violation' "$w/out.$id" | head -${MUT_SHOW:-4} | cut -c1-300
  tail -1 "$w/out.$id" | cut -c1-250
done
