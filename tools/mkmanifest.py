#!/usr/bin/env python3
"""Regenerates /verif/MANIFEST.json from the table below (kept next to the checks so that the
manifest is always valid and in step with what is implemented)."""
import json, os, sys

HERE = os.path.dirname(os.path.dirname(os.path.abspath(__file__)))

# id -> (engine, technique, level text, level note)
A = "docspace"
B = "choices"
CHECKS = {
 "C01": (A, "bounded-exhaustive enumeration of trees x roots x options, href x page-URL pieces and byte-token strings on the real entry points, with a deterministic step budget",
         "Every tree of <= 5/6 nodes over the anchored tag alphabet with every node as root (attached, detached, document), hand-built odd nodes, the options cross-product, the pager href x page-URL product and all short byte-token strings are executed; a panic, a step-budget overrun or a malformed result is a violation. Right level because every known crash needs <= 6 nodes or one URL.",
         "Inputs beyond the bounds and resource exhaustion by deep nesting are not covered; step counting relies on the overlay instrumenter."),
 "C02": (A, "explicit-state BFS over a document grammar (<= 2/3 edits on 3 skeletons), relational oracle on every state",
         "All documents within the edit bound are executed through Apply; the word sequences of Text and HTML must be duplicate-free subsequences of the visible source words (unique tokens).",
         "Alphabet of 27 block atoms; documents outside it are not explored."),
 "C03": (A, "exhaustive enumeration of inline-child sequences (<= 4/5) x contexts x surroundings",
         "Every probe paragraph within the bound is executed in 18 context/surrounding pairs; each qualifying <p> must be all-or-nothing in Text.",
         "Inline alphabet of 11/17 symbols."),
 "C04": (A, "exhaustive enumeration of (carrier, slot) placements (<= 2/3) in a fixed host document",
         "Every multiset of placements of 28 carriers in 11 slots is executed; secrets of hidden/non-reading carriers (classified on the parsed tree) must not reach Text or HTML.",
         "Canonical CSS spellings only; two exotic spellings are observe-only."),
 "C05": (A, "exhaustive enumeration of (element, taint) pairs on a host document with every rendering path",
         "Every element of the host document x every taint, singles and pairs, executed on the tree (raw attribute keys reach the library); output must be inert.",
         "One host document; taints limited to the listed attribute/child kinds."),
 "C06": (A, "exhaustive enumeration of reference-form assignments (<= 2/3 positions) x page URLs",
         "Every assignment of non-default reference forms to URL-carrying positions is executed against 4 page URLs; each output URL is compared with RFC 3986 resolution of its original (traced by marker).",
         "16 positions, 14 forms, 4 page URLs."),
 "C07": (A, "complete enumeration of container forests per pass (bounded leaves/depth), structural oracle",
         "All nestings within the pass bounds are executed; nestable-ancestor chains and groupings of retained words must match the source; retained data tables must be whole.",
         "Bounds per pass listed in evidence."),
 "C08": (A, "all sequences of block/media atoms up to length 5/7",
         "Every sequence is executed; kept(media) must follow kept(previous text) with at most one promoted image/figure.",
         "9+9 atoms; body-level sequences."),
 "C09": (A, "explicit-state BFS over a document grammar (<= 2/3 edits), cross-view oracle",
         "All documents within the edit bound: Text words == visible HTML words, ContentImages ordered subsequence of HTML image candidates, WordCount == |words(Text)| in the text-only sub-space.",
         "29 atoms; embed placeholders excluded as in the statement."),
 "C13": (A, "corpus x all 128 option configurations, equality classes",
         "Every corpus document is executed under all 16 flag sets x URL nil/set x SkipPagination x 2 algorithms; only the documented fields may vary.",
         "Corpus is a bounded docspace; log output itself is not inspected."),
 "C14": (A, "exhaustive enumeration of feature toggles of the three markup sources x block orders x opt-out, direct token model + composition check (4 executions per case)",
         "Every toggle set within the bound is executed; each scalar field must hold the token of the highest-precedence source whose markup offers it and equal the first non-empty value of the sources distilled alone; Article/Images wholesale; opt-out empties everything.",
         "Field alphabets as listed in evidence."),
 "C15": (A, "all <title> strings up to 6/7 symbols x heading/markup variants",
         "Every title string over the separator alphabet is executed; Title must obey the four clauses of the statement.",
         "Symbol alphabet of 11."),
 "C16": (A, "pager skeletons x href alphabet (<= 2/3 odd slots) x page URLs x both algorithms",
         "Every pager within the bound is executed; non-empty Next/PrevPage must be http(s), same host, and the normalised target of a real anchor.",
         "Href alphabet as listed."),
 "C17": (A, "complete enumeration N x k x URL families x pager markups, k±1 oracle",
         "The whole product is executed on both algorithms; next = link(k+1), prev = link(k-1).",
         "8 URL families; markups as listed."),
 "C18": (A, "complete enumeration of 1.56e6 feature vectors (<= 3 deviations in quick) x contexts against the 14-rule reference list",
         "Every vector is rendered and executed; the observed rendering path must match the decision list evaluated on the parsed table.",
         "No colspan/rowspan; th-as-cell ambiguity and empty header elements are observe-only."),
 "C19": (A, "complete product of schemes x services x host forms x paths x tag kinds",
         "Every source URL is executed in every tag kind; each placeholder must map to an allow-listed host with the right id; no stray frames.",
         "Independent reference host parser."),
 "C20": (A, "enumeration of marked-subtree placements (singles, pairs) x base sizes around the threshold, metamorphic oracle",
         "Every placement is executed three times (page, page with subtrees deleted, page with markers neutralised) and compared.",
         "ASCII; exemptions (body, a, table descendants) excluded."),
 "C10": (B, "exhaustive call histories (<= 3 calls) x documents x options x entry points with tree snapshots and a write monitor on caller-owned nodes",
         "Every history within the bound is executed on one shared tree/Options; structural snapshots must be identical and no hooked write may touch a caller-owned node.",
         "Writes through aliases are seen only by the snapshot comparison."),
 "C11": (B, "DFS over map-iteration-order choice points (<= 1/2 deviations); exhaustive call histories (<= 3 calls, four menus) in fresh processes; warm-vs-fresh-process differential over the corpora; in-place URL reuse; entry-point equivalence and repeatability",
         "Every execution with <= d non-default map orders must give the identical result; every history over the menus must reproduce the results of the same calls alone in a fresh process; every corpus document (and an evenly spaced subset of the cases of five other checks) must give the same result in a long-lived worker and in a fresh process; Reader/File/Apply must agree and repeat. Intermittent disagreement is reported, since determinism is the property.",
         "Only range-over-map sites rewritten by the instrumenter are controlled."),
 "C12": (B, "stateless model checking of 2-3 concurrent Apply/ApplyForReader/ApplyForURL calls under a cooperative scheduler at three granularities (A: function entries of the root package, unbounded; V: visible operations, unbounded; F: every hook, preemption-bounded), lockset race monitor, plus a separate free-running -race pass",
         "All schedules within the bounds are executed on the real code for nine hand-written scenarios (shared tree and Options, different pages, logging calls, reader entry, URL entry through an in-process transport, namespace-prefix pages) and for every 16th (thorough: 8th) document of the cross corpus; each thread's result must equal its solo result, shared inputs stay unchanged, and no conflicting unsynchronised access pair may occur.",
         "Sequentially consistent interleavings at hook granularity; dependencies are covered only by the -race pass."),
}

CROSS = {"C01", "C02", "C03", "C05", "C06", "C09", "C10", "C11", "C12", "C13", "C15", "C16", "C19"}
DECOR = {"C02", "C03", "C04", "C06", "C07", "C08", "C09", "C15", "C16", "C17", "C18", "C19"}


def main():
    impl = sorted(sys.argv[1:]) if len(sys.argv) > 1 else sorted(CHECKS)
    checks = []
    for pid in impl:
        eng, tech, text, note = CHECKS[pid]
        if pid in CROSS:
            text += " The same oracle is also run on the cross corpus: an evenly spaced, fixed subset of the documents that the other checks enumerate, a third of them once more pretty-printed and a third once more with comments between their blocks."
        if pid in DECOR:
            text += " Every 10th (thorough: 4th) case of the check's own space is executed twice more with the document pretty-printed and with comments between its blocks."
        checks.append({
            "property_id": pid,
            "quick_cmd": "./check %s quick" % pid,
            "thorough_cmd": "./check %s thorough" % pid,
            "evidence_file": "/verif/evidence/%s.json" % pid,
            "replay_cmd_template": "./check replay {path}",
            "engine": eng,
            "level_claimed": {"category": "model_checking", "text": text, "design_ref": "DESIGN.md §5 " + pid},
            "level_note": note,
            "technique": tech,
        })
    na = [{"property_id": p, "reason": "check not yet implemented in this revision (planned, see DESIGN.md §5)"} for p in sorted(CHECKS) if p not in impl]
    m = {
        "version": 1,
        "setup_cmd": "./setup.sh",
        "hooks": {
            "guard": "verif-overlay",
            "enable": "no source hooks in /repo: every check runs /verif/tools/instr on the repo's current working tree and builds the harness with `go build -overlay <generated overlay.json>`; the overlay rewrites the library's files (Enter/Tick/Var/NW/MapKeys hooks) and adds the virtual package <module>/verifrt; if rewriting fails the check falls back to an overlay that only adds verifrt",
            "baseline_off_cmd": "cd /repo && GOFLAGS=-mod=mod GOPROXY=off GOSUMDB=off GOTOOLCHAIN=local go test -vet=off -count=1 ./...",
            "source_commits": [],
            "add_only": True,
        },
        "engines": [
            {"name": "docspace", "path": "/verif/harness (eng, ora, props)", "serves_properties": [p for p in impl if CHECKS[p][0] == A],
             "kind_free_text": "bounded-exhaustive explicit-state enumeration of documents/configurations, sharded over worker processes, every state executed on the real library with a relational oracle"},
            {"name": "choices", "path": "/verif/harness (eng/explore.go, props)", "serves_properties": [p for p in impl if CHECKS[p][0] == B],
             "kind_free_text": "stateless DFS over recorded choice points (map orders, call histories, cooperative scheduler with preemption bound) on the instrumented real code"},
            {"name": "instr", "path": "/verif/tools/instr + /verif/verifrt", "serves_properties": impl,
             "kind_free_text": "typed AST instrumenter producing a go build -overlay (hooks for steps, package variables, node writes, map ranges)"},
        ],
        "checks": checks,
        "not_applicable": na,
        "cross_corpus": "C01, C02, C03, C05, C06, C09, C10, C11, C12 (as two-thread scenarios), C13, C15, C16 and C19 - whose oracles are defined for any document - additionally run an evenly spaced subset of the documents that C02-C04, C06-C10 and C13-C20 enumerate (harness/props/cross.go, DESIGN.md 10.2a)",
        "notes": "All checks: `./check <ID> [quick|thorough]`; replay: `./check replay <file>`; known findings: /verif/known-findings.txt; design: /verif/DESIGN.md",
    }
    with open(os.path.join(HERE, "MANIFEST.json"), "w") as f:
        json.dump(m, f, indent=1)
        f.write("\n")
    print("MANIFEST.json: %d checks, %d not yet implemented" % (len(checks), len(na)))

if __name__ == "__main__":
    main()
