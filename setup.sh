#!/bin/bash
# Build the framework offline from files on disk: instrumenter, instrumented harness (cached by
# tree hash), and the -race variant used by C12. Also confirms that the repository's own tests
# pass against the instrumented overlay (the instrumenter is part of the trusted base).
set -e
cd "$(dirname "$0")"
export GOFLAGS=-mod=mod GOPROXY=off GOSUMDB=off GOTOOLCHAIN=local
./check build >/dev/null
./check build race >/dev/null
./check selftest >/dev/null
echo "setup ok"
