// Package ora holds what the property oracles share: running the public API on a case, a
// reference reading of HTML trees (visible text, words, attributes) that is independent of the
// library's internals, and small HTML-building helpers with unique tokens.
package ora

import (
	"fmt"
	nurl "net/url"
	"strings"

	"github.com/go-shiori/dom"
	distiller "github.com/markusmobius/go-domdistiller"
	"golang.org/x/net/html"
	"verif/harness/eng"
)

// ---- running the library ---------------------------------------------------------------------

func Parse(src string) *html.Node {
	doc, err := dom.FastParse(strings.NewReader(src))
	if err != nil {
		panic("ora.Parse: " + err.Error())
	}
	return doc
}

func Opts(c *eng.Case) *distiller.Options {
	if c.Nil {
		return nil
	}
	o := &distiller.Options{LogFlags: distiller.LogFlag(c.Flags), SkipPagination: c.Skip, PaginationAlgo: distiller.PaginationAlgo(c.Algo)}
	if c.URL != "" {
		u, err := nurl.Parse(c.URL)
		if err == nil {
			o.OriginalURL = u
		}
	}
	return o
}

// Run parses the case's HTML into a fresh tree and calls distiller.Apply. A library panic is
// returned as *eng.PanicInfo (never propagated).
func Run(c *eng.Case) (doc *html.Node, res *distiller.Result, err error, pi *eng.PanicInfo) {
	doc = Parse(DecoratedHTML(c))
	res, err, pi = Apply(doc, Opts(c))
	return
}

// DecoratedHTML is the case's document, re-rendered with white space or comments between its
// blocks when the case asks for it (parameter "decor"); the document itself when that is not
// possible without changing the tree.
func DecoratedHTML(c *eng.Case) string {
	if d := c.Get("decor"); d != "" {
		if h := Decorate(c.HTML, d); h != "" {
			return h
		}
	}
	return c.HTML
}

func Apply(doc *html.Node, o *distiller.Options) (res *distiller.Result, err error, pi *eng.PanicInfo) {
	pi = eng.Protect(func() { res, err = distiller.Apply(doc, o) })
	return
}

// ---- words -----------------------------------------------------------------------------------

func isWordByte(b byte) bool {
	return b >= '0' && b <= '9' || b >= 'a' && b <= 'z' || b >= 'A' && b <= 'Z'
}

// Words returns the maximal [A-Za-z0-9]+ runs of s.
func Words(s string) []string {
	var out []string
	i := 0
	for i < len(s) {
		for i < len(s) && !isWordByte(s[i]) {
			i++
		}
		j := i
		for j < len(s) && isWordByte(s[j]) {
			j++
		}
		if j > i {
			out = append(out, s[i:j])
		}
		i = j
	}
	return out
}

// ---- tree reading ----------------------------------------------------------------------------

func Attr(n *html.Node, key string) (string, bool) {
	for _, a := range n.Attr {
		if a.Key == key {
			return a.Val, true
		}
	}
	return "", false
}

func AttrV(n *html.Node, key string) string { v, _ := Attr(n, key); return v }

func HasClass(n *html.Node, cls string) bool {
	for _, f := range strings.Fields(AttrV(n, "class")) {
		if f == cls {
			return true
		}
	}
	return false
}

// Walk visits n and its descendants in document order; fn returning false skips the subtree.
func Walk(n *html.Node, fn func(*html.Node) bool) {
	if n == nil {
		return
	}
	if !fn(n) {
		return
	}
	for c := n.FirstChild; c != nil; c = c.NextSibling {
		Walk(c, fn)
	}
}

func Tag(n *html.Node) string {
	if n.Type == html.ElementNode {
		return n.Data
	}
	return ""
}

func Ancestor(n *html.Node, tags ...string) *html.Node {
	for p := n.Parent; p != nil; p = p.Parent {
		if p.Type == html.ElementNode {
			for _, t := range tags {
				if p.Data == t {
					return p
				}
			}
		}
	}
	return nil
}

// HiddenKind tells whether the element is hidden in the sense of property C04 (hidden
// attribute, inline display:none, visibility:hidden/collapse, aria-hidden=true). Only the
// canonical spellings of the statement are recognised here; generators stay within them.
func HiddenKind(n *html.Node) string {
	if n.Type != html.ElementNode {
		return ""
	}
	if _, ok := Attr(n, "hidden"); ok {
		return "hidden-attr"
	}
	if v, ok := Attr(n, "aria-hidden"); ok && strings.EqualFold(strings.TrimSpace(v), "true") {
		return "aria-hidden"
	}
	if st, ok := Attr(n, "style"); ok {
		for _, decl := range strings.Split(st, ";") {
			kv := strings.SplitN(decl, ":", 2)
			if len(kv) != 2 {
				continue
			}
			k := strings.ToLower(strings.TrimSpace(kv[0]))
			v := strings.ToLower(strings.TrimSpace(kv[1]))
			v = strings.TrimSpace(strings.TrimSuffix(v, "!important"))
			if k == "display" && v == "none" {
				return "display-none"
			}
			if k == "visibility" && (v == "hidden" || v == "collapse") {
				return "visibility"
			}
		}
	}
	return ""
}

var nonRendered = map[string]bool{"head": true, "script": true, "style": true, "template": true, "title": true}

// SrcVisibleText returns the text nodes of the (parsed input) tree that are visible in the
// sense of C02/C04: not in head/script/style/template, not in a comment, not in a hidden element.
func SrcVisibleText(root *html.Node) []*html.Node {
	var out []*html.Node
	Walk(root, func(n *html.Node) bool {
		switch n.Type {
		case html.TextNode:
			out = append(out, n)
		case html.ElementNode:
			if nonRendered[n.Data] || HiddenKind(n) != "" {
				return false
			}
		case html.CommentNode, html.DoctypeNode:
			return false
		}
		return true
	})
	return out
}

func WordsOfNodes(ns []*html.Node) []string {
	var out []string
	for _, n := range ns {
		out = append(out, Words(n.Data)...)
	}
	return out
}

// AllText returns the concatenated text of all text nodes under n (with a space between nodes).
func AllText(n *html.Node) string {
	var sb strings.Builder
	Walk(n, func(x *html.Node) bool {
		if x.Type == html.TextNode {
			sb.WriteString(x.Data)
			sb.WriteByte(' ')
		}
		return true
	})
	return sb.String()
}

func IsPlaceholder(n *html.Node) bool {
	return n.Type == html.ElementNode && n.Data == "div" && HasClass(n, "embed-placeholder")
}

// OutVisibleWords reads the distilled HTML tree: words of text nodes in document order,
// skipping script/style, [hidden] elements and embed placeholders.
func OutVisibleWords(root *html.Node) []string {
	var out []string
	Walk(root, func(n *html.Node) bool {
		switch n.Type {
		case html.TextNode:
			out = append(out, Words(n.Data)...)
		case html.ElementNode:
			if n.Data == "script" || n.Data == "style" || IsPlaceholder(n) {
				return false
			}
			if _, ok := Attr(n, "hidden"); ok {
				return false
			}
		case html.CommentNode:
			return false
		}
		return true
	})
	return out
}

func Render(n *html.Node) string {
	if n == nil {
		return "<nil>"
	}
	return dom.OuterHTML(n)
}

func Elements(root *html.Node, tags ...string) []*html.Node {
	var out []*html.Node
	Walk(root, func(n *html.Node) bool {
		if n.Type == html.ElementNode {
			for _, t := range tags {
				if n.Data == t {
					out = append(out, n)
				}
			}
		}
		return true
	})
	return out
}

// ---- token / HTML helpers --------------------------------------------------------------------

// Tok hands out unique word tokens and URL markers.
type Tok struct{ n, u int }

// W returns k fresh words separated by spaces.
func (t *Tok) W(k int) string {
	var sb strings.Builder
	for i := 0; i < k; i++ {
		if i > 0 {
			sb.WriteByte(' ')
		}
		t.n++
		fmt.Fprintf(&sb, "w%dq", t.n)
	}
	return sb.String()
}

// U returns a fresh URL marker (a path-safe identifier).
func (t *Tok) U() string {
	t.u++
	return fmt.Sprintf("u%dz", t.u)
}

func Set(ws []string) map[string]bool {
	m := make(map[string]bool, len(ws))
	for _, w := range ws {
		m[w] = true
	}
	return m
}

func Trunc(s string, n int) string {
	if len(s) > n {
		return s[:n] + "…"
	}
	return s
}

// SrcsetCandidates parses a srcset attribute the way the HTML standard does (a URL is a run of
// non-whitespace characters, trailing commas end the candidate; otherwise descriptors follow up
// to the next comma) and returns the candidate URLs.
func SrcsetCandidates(v string) []string {
	var out []string
	i := 0
	isSp := func(b byte) bool { return b == ' ' || b == '\t' || b == '\n' || b == '\r' || b == '\f' }
	for i < len(v) {
		for i < len(v) && (isSp(v[i]) || v[i] == ',') {
			i++
		}
		if i >= len(v) {
			break
		}
		j := i
		for j < len(v) && !isSp(v[j]) {
			j++
		}
		url := v[i:j]
		i = j
		if strings.HasSuffix(url, ",") {
			url = strings.TrimRight(url, ",")
		} else {
			// descriptors up to the next comma
			for i < len(v) && v[i] != ',' {
				i++
			}
		}
		if url != "" {
			out = append(out, url)
		}
	}
	return out
}
