package ora

import (
	"fmt"
	"strings"

	"golang.org/x/net/html"
)

var decorParents = map[string]bool{"html": true, "head": true, "body": true, "div": true, "ul": true, "ol": true, "table": true, "thead": true, "tbody": true, "tfoot": true, "tr": true,
	"figure": true, "picture": true, "video": true, "blockquote": true, "section": true, "article": true, "nav": true, "main": true, "dl": true}

// Decorate re-renders a document with white space ("pretty") or comments ("comments")
// between the element children of every container that has no text of its own. Neither changes
// what a browser shows. Returns "" when the document does not survive a parse/render round trip
// unchanged (then the decoration could not be told apart from that).
func Decorate(src, how string) string {
	doc := Parse(src)
	if doc == nil {
		return ""
	}
	if again := Parse(Render(doc)); again == nil || Render(again) != Render(doc) {
		return ""
	}
	n := 0
	var rec func(p *html.Node, depth int)
	rec = func(p *html.Node, depth int) {
		if p.Type == html.ElementNode && decorParents[p.Data] && !(how == "pretty" && (p.Data == "html" || p.Data == "head")) {
			onlyElements := p.FirstChild != nil
			for c := p.FirstChild; c != nil; c = c.NextSibling {
				if c.Type != html.ElementNode {
					onlyElements = false
				}
			}
			if onlyElements {
				var kids []*html.Node
				for c := p.FirstChild; c != nil; c = c.NextSibling {
					kids = append(kids, c)
				}
				mk := func() *html.Node {
					n++
					if how == "comments" {
						return &html.Node{Type: html.CommentNode, Data: fmt.Sprintf(" note c%dk ", n)}
					}
					return &html.Node{Type: html.TextNode, Data: "\n" + strings.Repeat("  ", depth+1)}
				}
				for _, k := range kids {
					p.InsertBefore(mk(), k)
				}
				p.AppendChild(mk())
			}
		}
		for c := p.FirstChild; c != nil; c = c.NextSibling {
			if c.Type == html.ElementNode {
				rec(c, depth+1)
			}
		}
	}
	rec(doc, 0)
	if n == 0 {
		return ""
	}
	out := Render(doc)
	// the decorated text must parse back to the decorated tree (e.g. no text may be foster-parented)
	if again := Parse(out); again == nil || Render(again) != out {
		return ""
	}
	return out
}
