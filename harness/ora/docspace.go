package ora

import (
	"strings"
)

// docspace: explicit-state enumeration of documents. A document is a skeleton (top-level items
// and the children of the article container) plus edits; an edit inserts one atom at one child
// position of one container. Tokens are handed out at render time in document order, so two
// edit sequences that build the same structure render to the same HTML and are de-duplicated.

type Atom struct {
	Name string
	Gen  func(t *Tok) string
}

// Item is an atom index, or Art for the article container.
const Art = -1

type DocModel struct {
	Skel string
	Top  []int
	ArtC []int
	Head string // extra head content
}

func (d *DocModel) clone() *DocModel {
	return &DocModel{Skel: d.Skel, Top: append([]int(nil), d.Top...), ArtC: append([]int(nil), d.ArtC...), Head: d.Head}
}

const DefaultTitle = "Plain story heading words"

func (d *DocModel) Render(atoms []Atom) string {
	t := &Tok{}
	var sb strings.Builder
	sb.WriteString("<html><head><title>" + DefaultTitle + "</title>" + d.Head + "</head><body>")
	for _, it := range d.Top {
		if it == Art {
			sb.WriteString("<div class=\"main\">")
			for _, a := range d.ArtC {
				sb.WriteString(atoms[a].Gen(t))
			}
			sb.WriteString("</div>")
		} else {
			sb.WriteString(atoms[it].Gen(t))
		}
	}
	sb.WriteString("</body></html>")
	return sb.String()
}

func (d *DocModel) Describe(atoms []Atom) string {
	var sb strings.Builder
	sb.WriteString(d.Skel + ":")
	for _, it := range d.Top {
		if it == Art {
			sb.WriteString("[")
			for i, a := range d.ArtC {
				if i > 0 {
					sb.WriteByte(' ')
				}
				sb.WriteString(atoms[a].Name)
			}
			sb.WriteString("]")
		} else {
			sb.WriteString(" " + atoms[it].Name + " ")
		}
	}
	return sb.String()
}

// EnumDocs emits every document reachable from each start model by at most maxEdits insertions
// of atoms from `alphabet` (indices into atoms). emit receives the model (valid only during the
// call). Every generated transition is emitted; the caller de-duplicates on the rendered HTML.
func EnumDocs(starts []*DocModel, alphabet []int, maxEdits int, emit func(d *DocModel, edits int)) {
	var rec func(d *DocModel, depth int)
	rec = func(d *DocModel, depth int) {
		emit(d, depth)
		if depth == maxEdits {
			return
		}
		hasArt := false
		for _, it := range d.Top {
			if it == Art {
				hasArt = true
			}
		}
		for _, a := range alphabet {
			for p := 0; p <= len(d.Top); p++ {
				n := d.clone()
				n.Top = append(n.Top[:p:p], append([]int{a}, d.Top[p:]...)...)
				rec(n, depth+1)
			}
			if hasArt {
				for p := 0; p <= len(d.ArtC); p++ {
					n := d.clone()
					n.ArtC = append(n.ArtC[:p:p], append([]int{a}, d.ArtC[p:]...)...)
					rec(n, depth+1)
				}
			}
		}
	}
	for _, s := range starts {
		rec(s, 0)
	}
}

// AtomIndex returns the indices of the named atoms.
func AtomIndex(atoms []Atom, names ...string) []int {
	var out []int
	for _, n := range names {
		found := false
		for i, a := range atoms {
			if a.Name == n {
				out = append(out, i)
				found = true
			}
		}
		if !found {
			panic("unknown atom " + n)
		}
	}
	return out
}

func img(t *Tok) string {
	return "<img src=\"http://example.com/img/" + t.U() + ".jpg\" width=\"400\" height=\"300\">"
}

func link(t *Tok, words int) string {
	return "<a href=\"http://example.com/l/" + t.U() + "\">" + t.W(words) + "</a>"
}

// StdAtoms is the common block alphabet (DESIGN §3.2).
var StdAtoms = []Atom{
	{"Pc", func(t *Tok) string { return "<p>" + t.W(20) + "</p>" }},
	{"Pc2", func(t *Tok) string { return "<p>" + t.W(31) + "</p>" }},
	{"Ps", func(t *Tok) string { return "<p>" + t.W(3) + "</p>" }},
	{"Pb", func(t *Tok) string {
		return "<div class=\"links\">" + link(t, 2) + " " + link(t, 2) + " " + link(t, 1) + " " + link(t, 2) + "</div>"
	}},
	{"H", func(t *Tok) string { return "<h2>" + t.W(4) + "</h2>" }},
	{"UL1", func(t *Tok) string { return "<ul><li>" + t.W(9) + "</li></ul>" }},
	{"UL3", func(t *Tok) string {
		return "<ul><li>" + t.W(9) + "</li><li>" + t.W(12) + "</li><li>" + t.W(8) + "</li></ul>"
	}},
	{"OL2", func(t *Tok) string { return "<ol><li>" + t.W(11) + "</li><li>" + t.W(10) + "</li></ol>" }},
	{"ULn", func(t *Tok) string {
		return "<ul><li>" + t.W(9) + "<ul><li>" + t.W(10) + "</li><li>" + t.W(7) + "</li></ul></li><li>" + t.W(8) + "</li></ul>"
	}},
	{"BQ", func(t *Tok) string { return "<blockquote><p>" + t.W(21) + "</p></blockquote>" }},
	{"PRE", func(t *Tok) string { return "<pre><code>" + t.W(6) + "\n" + t.W(5) + "</code></pre>" }},
	{"TBLd", func(t *Tok) string {
		return "<table><caption>" + t.W(2) + "</caption><tr><th>" + t.W(1) + "</th><th>" + t.W(1) + "</th></tr><tr><td>" + t.W(2) + "</td><td>" + t.W(1) + "</td></tr><tr><td>" + t.W(1) + "</td><td>" + t.W(2) + "</td></tr></table>"
	}},
	{"TBLl", func(t *Tok) string { return "<table><tr><td><p>" + t.W(20) + "</p></td></tr></table>" }},
	{"IMG", func(t *Tok) string { return img(t) }},
	{"FIG", func(t *Tok) string { return "<figure>" + img(t) + "<figcaption>" + t.W(5) + "</figcaption></figure>" }},
	{"FIGl", func(t *Tok) string {
		return "<figure>" + img(t) + "<figcaption>" + t.W(3) + " " + link(t, 2) + " " + t.W(1) + "</figcaption></figure>"
	}},
	{"FIGe", func(t *Tok) string {
		w := t.W(1)
		return "<figure>" + img(t) + "<figcaption>&lt;" + w + "&gt; " + t.W(3) + "</figcaption></figure>"
	}},
	// captions (and a caption-less figure) that end in an element whose content is not rendered
	{"FIGch", func(t *Tok) string {
		return "<figure>" + img(t) + "<figcaption>" + t.W(4) + "<span hidden>" + t.W(1) + "</span></figcaption></figure>"
	}},
	{"FIGcs", func(t *Tok) string {
		return "<figure>" + img(t) + "<figcaption>" + t.W(3) + "<style>.x{color:red}</style></figcaption></figure>"
	}},
	{"FIGns", func(t *Tok) string {
		return "<figure>" + img(t) + "<script>var z=1;</script></figure>"
	}},
	{"VID", func(t *Tok) string {
		return "<video src=\"http://example.com/v/" + t.U() + ".mp4\" poster=\"http://example.com/v/" + t.U() + ".jpg\" width=\"400\" height=\"300\"></video>"
	}},
	{"YT", func(t *Tok) string {
		return "<iframe src=\"http://www.youtube.com/embed/" + t.U() + "\" width=\"400\" height=\"300\"></iframe>"
	}},
	{"INL", func(t *Tok) string {
		return "<p>" + t.W(6) + " <b>" + t.W(2) + "</b> " + t.W(4) + " <font color=\"red\">" + t.W(2) + "</font> " + t.W(3) + " " + link(t, 2) + " " + t.W(5) + "</p>"
	}},
	{"JS1", func(t *Tok) string {
		return "<p>" + t.W(12) + " <a href=\"javascript:void(0)\">" + t.W(2) + "</a> " + t.W(9) + "</p>"
	}},
	{"JS2", func(t *Tok) string {
		return "<p>" + t.W(12) + " <a href=\"javascript:void(0)\"><b>" + t.W(1) + "</b> " + t.W(1) + "</a> " + t.W(9) + "</p>"
	}},
	{"BR", func(t *Tok) string { return "<p>" + t.W(11) + "<br>" + t.W(12) + "</p>" }},
	{"HID", func(t *Tok) string { return "<div style=\"display:none\"><p>" + t.W(20) + "</p></div>" }},
	{"HIDs", func(t *Tok) string {
		return "<p>" + t.W(10) + " <span hidden>" + t.W(2) + "</span> " + t.W(10) + "</p>"
	}},
	{"NOS", func(t *Tok) string {
		u := t.U()
		return "<figure><noscript><img src=\"http://example.com/img/" + u + ".jpg\"></noscript><img data-src=\"http://example.com/img/" + u + "-lazy.jpg\" class=\"lazy\"><figcaption>" + t.W(4) + "</figcaption></figure>"
	}},
	{"PIC", func(t *Tok) string {
		return "<picture><source srcset=\"http://example.com/img/" + t.U() + ".webp\"></picture>"
	}},
	{"DIVt", func(t *Tok) string { return "<div>" + t.W(20) + "</div>" }},
	{"SCR", func(t *Tok) string { return "<script>var " + t.W(1) + " = 1;</script>" }},
	{"TXT", func(t *Tok) string { return " " + t.W(19) + " " }},
	{"TBLh", func(t *Tok) string {
		return "<table><tr><th>" + t.W(1) + "</th><th>" + t.W(1) + "</th><th>" + t.W(1) + "</th></tr><tr><td>" + t.W(1) + " <span style=\"visibility:hidden\">" + t.W(1) + "</span></td><td><!-- c --></td><td><span hidden>" + t.W(1) + "</span></td></tr><tr><td>" + t.W(1) + "</td><td aria-hidden=\"true\">" + t.W(1) + "</td><td>" + t.W(1) + "</td></tr></table>"
	}},
	{"LItbl", func(t *Tok) string {
		return "<ul><li>" + t.W(14) + " <table><tr><th>" + t.W(1) + "</th><th>" + t.W(1) + "</th></tr><tr><td>" + t.W(1) + "</td><td>" + t.W(1) + "</td></tr></table> " + t.W(6) + "</li><li>" + t.W(9) + "</li></ul>"
	}},
	{"SIDE", func(t *Tok) string {
		return "<div class=\"sidebar\">" + link(t, 2) + " " + link(t, 2) + " " + link(t, 1) + "</div>"
	}},
	{"IMGlead", func(t *Tok) string { return "<div class=\"hero\">" + img(t) + "</div>" }},
}

// Skeletons (start states).
func StdSkeletons(atoms []Atom) []*DocModel {
	pc := AtomIndex(atoms, "Pc")[0]
	pc2 := AtomIndex(atoms, "Pc2")[0]
	pb := AtomIndex(atoms, "Pb")[0]
	s1 := &DocModel{Skel: "S1", Top: []int{Art}, ArtC: []int{pc, pc2, pc}}
	s2 := &DocModel{Skel: "S2", Top: []int{pb, Art, pb}, ArtC: []int{pc, pc2, pc}}
	return []*DocModel{s1, s2}
}

// BigSkeleton returns S3: an article of >= 520 words so that the first extraction pass suffices.
func BigSkeleton(atoms []Atom) *DocModel {
	pc2 := AtomIndex(atoms, "Pc2")[0]
	var c []int
	for i := 0; i < 18; i++ {
		c = append(c, pc2)
	}
	return &DocModel{Skel: "S3", Top: []int{Art}, ArtC: c}
}
