module verif/harness

go 1.23

require github.com/markusmobius/go-domdistiller v0.0.0

replace github.com/markusmobius/go-domdistiller => /repo
