// vcheck drives one property check: it shards the property's space over worker processes
// (copies of itself), merges their summaries, triages violations against known-findings.txt,
// writes replay files and the evidence file, and sets the exit status.
package main

import (
	"bytes"
	"encoding/json"
	"flag"
	"fmt"
	"os"
	"os/exec"
	"path/filepath"
	"runtime"
	"sort"
	"strconv"
	"strings"
	"sync"
	"time"

	"crypto/sha1"

	"github.com/markusmobius/go-domdistiller/verifrt"
	"verif/harness/eng"
	"verif/harness/ora"
	_ "verif/harness/props"
)

var (
	fProp    = flag.String("prop", "", "property id")
	fTier    = flag.String("tier", "", "quick|thorough")
	fWorker  = flag.Int("worker", -1, "worker index (internal)")
	fN       = flag.Int("n", 0, "number of workers")
	fSeed    = flag.Int64("seed", 0, "seed")
	fDead    = flag.Int64("deadline", 0, "unix deadline (internal)")
	fReplay  = flag.String("replay", "", "replay file")
	fList    = flag.Bool("list", false, "list properties")
	fCurFile = flag.String("cur", "", "file receiving the case being executed (internal)")
	fSub     = flag.String("sub", "", "auxiliary sub-mode name (internal)")
	fSubArg  = flag.String("arg", "", "argument of the sub-mode (internal)")
	fShow    = flag.Bool("show", false, "with -replay: also print the distiller's result for the case")
)

func root() string {
	if r := os.Getenv("VERIF_ROOT"); r != "" {
		return r
	}
	return "/verif"
}

func main() {
	flag.Parse()
	if *fList {
		var ids []string
		for id := range eng.Registry {
			ids = append(ids, id)
		}
		sort.Strings(ids)
		fmt.Println(strings.Join(ids, " "))
		return
	}
	if *fSub != "" {
		f := eng.SubModes[*fSub]
		if f == nil {
			os.Exit(2)
		}
		quiet()
		os.Exit(f(*fSubArg))
	}
	if *fReplay != "" {
		os.Exit(replay(*fReplay))
	}
	if *fTier == "" {
		*fTier = os.Getenv("VERIF_TIER")
	}
	if *fTier != "thorough" {
		*fTier = "quick"
	}
	eng.Tier = *fTier
	if *fSeed == 0 {
		if s := os.Getenv("VERIF_SEED"); s != "" {
			*fSeed, _ = strconv.ParseInt(s, 10, 64)
		}
	}
	p := eng.Registry[*fProp]
	if p == nil {
		fmt.Fprintf(os.Stderr, "unknown property %q\n", *fProp)
		os.Exit(2)
	}
	if *fWorker >= 0 {
		worker(p)
		return
	}
	os.Exit(parent(p))
}

func quiet() {
	// logrus.New() captures os.Stderr per call: point it at /dev/null. Fatal runtime errors still
	// reach the real fd 2.
	if dn, err := os.OpenFile(os.DevNull, os.O_WRONLY, 0); err == nil {
		os.Stderr = dn
	}
}

func worker(p *eng.Prop) {
	out := os.Stdout
	quiet()
	os.Stdout, _ = os.OpenFile(os.DevNull, os.O_WRONLY, 0)
	w := &eng.Worker{P: p, Tier: *fTier, Index: *fWorker, N: *fN, Seed: *fSeed}
	if *fDead > 0 {
		w.Deadline = time.Unix(*fDead, 0)
	}
	if *fCurFile != "" {
		eng.CurFile, _ = os.Create(*fCurFile)
	}
	w.Run()
	b, _ := json.Marshal(w.Sum)
	out.Write(b)
}

func replay(path string) int {
	b, err := os.ReadFile(path)
	if err != nil {
		fmt.Fprintln(os.Stderr, err)
		return 2
	}
	var r eng.Replay
	if err := json.Unmarshal(b, &r); err != nil {
		fmt.Fprintln(os.Stderr, err)
		return 2
	}
	p := eng.Registry[r.Property]
	if p == nil {
		fmt.Fprintln(os.Stderr, "unknown property", r.Property)
		return 2
	}
	quiet()
	if r.Tier == "thorough" {
		eng.Tier = r.Tier
	}
	if *fShow {
		_, res, err, pi := ora.Run(r.Case)
		fmt.Printf("HTML in: %s\nURL: %s algo=%d\n", r.Case.HTML, r.Case.URL, r.Case.Algo)
		if pi != nil {
			fmt.Printf("PANIC: %s\n%s\n", pi.Value, pi.Stack)
		} else if err != nil {
			fmt.Println("ERR:", err)
		} else {
			fmt.Printf("Title: %q\nText: %q\nHTML out: %s\nImages: %v\nWordCount: %d\nPagination: %+v\nMarkup: %+v\n", res.Title, res.Text, ora.Render(res.Node), res.ContentImages, res.WordCount, res.PaginationInfo, res.MarkupInfo)
		}
	}
	o := eng.SafeCheck(p, r.Case)
	fmt.Printf("replay %s: instrumented=%v steps=%d\n", path, verifrt.Instrumented, verifrt.Steps)
	if o.Skipped != "" {
		fmt.Println("skipped:", o.Skipped)
	}
	for _, n := range o.Notes {
		fmt.Println("note:", n)
	}
	rc := 0
	for _, v := range o.Viol {
		fmt.Printf("violation sig=%s\n  %s\n", v.Sig, v.Msg)
		rc = 1
	}
	if rc == 0 {
		fmt.Println("no violation on this case")
	} else {
		fmt.Printf("VIOLATION property=%s replay=%s\n", r.Property, path)
	}
	return rc
}

func envInt(name string, def int) int {
	if s := os.Getenv(name); s != "" {
		if v, err := strconv.Atoi(s); err == nil {
			return v
		}
	}
	return def
}

func parent(p *eng.Prop) int {
	start := time.Now()
	n := envInt("VERIF_WORKERS", runtime.NumCPU())
	if n < 1 {
		n = 1
	}
	dl := 420
	if *fTier == "thorough" {
		dl = 3 * 3600
	}
	dl = envInt("VERIF_DEADLINE_S", dl)
	deadline := start.Add(time.Duration(dl) * time.Second)
	if p.Prepare != nil {
		p.Prepare(*fTier)
	}
	scratch, err := os.MkdirTemp("", "vcheck-"+p.ID+"-")
	if err != nil {
		fmt.Fprintln(os.Stderr, err)
		return 2
	}
	defer os.RemoveAll(scratch)

	sums := make([]*eng.Summary, n)
	died := make([]string, n)
	var wg sync.WaitGroup
	for i := 0; i < n; i++ {
		wg.Add(1)
		go func(i int) {
			defer wg.Done()
			cur := filepath.Join(scratch, fmt.Sprintf("cur%d.json", i))
			cmd := exec.Command(os.Args[0], "-prop", p.ID, "-tier", *fTier, "-worker", strconv.Itoa(i), "-n", strconv.Itoa(n),
				"-seed", strconv.FormatInt(*fSeed, 10), "-deadline", strconv.FormatInt(deadline.Unix(), 10), "-cur", cur)
			var so, se bytes.Buffer
			cmd.Stdout = &so
			cmd.Stderr = &se
			cmd.Env = append(os.Environ(), "GOMAXPROCS=2", "GOTRACEBACK=single")
			err := cmd.Run()
			var s eng.Summary
			if err == nil {
				if jerr := json.Unmarshal(so.Bytes(), &s); jerr == nil {
					sums[i] = &s
					return
				} else {
					err = jerr
				}
			}
			tail := se.String()
			if len(tail) > 1500 {
				tail = tail[:1500]
			}
			cb, _ := os.ReadFile(cur)
			died[i] = fmt.Sprintf("worker %d died: %v\ncase: %s\nstderr: %s", i, err, string(cb), tail)
			// keep the killer case for the parent
			if len(cb) > 0 {
				os.WriteFile(filepath.Join(scratch, fmt.Sprintf("killer%d.json", i)), cb, 0o644)
			}
		}(i)
	}
	wg.Wait()

	total := eng.NewSummary()
	total.Complete = true
	deadWorkers := 0
	for i := 0; i < n; i++ {
		if sums[i] == nil {
			deadWorkers++
			total.Complete = false
			fmt.Printf("NOTE: %s\n", died[i])
			if p.PanicIsViolation {
				// a crashed worker process is itself a totality violation: the case is in cur file
				if cb, err := os.ReadFile(filepath.Join(scratch, fmt.Sprintf("killer%d.json", i))); err == nil {
					var c eng.Case
					if json.Unmarshal(cb, &c) == nil {
						sig := "crash@process"
						if strings.Contains(died[i], "stack overflow") {
							sig = "crash@stack-overflow"
						}
						total.Viol[sig] = &eng.VRec{Sig: sig, Msg: died[i], Case: &c, Count: 1}
					}
				}
			}
			continue
		}
		if !sums[i].Complete {
			total.Complete = false
		}
		total.Merge(sums[i])
	}

	// triage
	known := eng.LoadKnown(filepath.Join(root(), "known-findings.txt"))
	isKnown := func(sig string) *eng.Known {
		for i := range known {
			if known[i].Kind == "known" && known[i].Prop == p.ID && known[i].Sig == sig {
				return &known[i]
			}
		}
		return nil
	}
	var sigsSorted []string
	for s := range total.Viol {
		sigsSorted = append(sigsSorted, s)
	}
	sort.Strings(sigsSorted)
	os.MkdirAll(filepath.Join(root(), "replays"), 0o755)
	newViol, knownHit := 0, 0
	var vlist []map[string]any
	for _, s := range sigsSorted {
		v := total.Viol[s]
		if k := isKnown(s); k != nil {
			knownHit++
			fmt.Printf("KNOWN-FINDING: property=%s sig=%s count=%d %s\n", p.ID, s, v.Count, k.Desc)
			vlist = append(vlist, map[string]any{"sig": s, "count": v.Count, "known": true})
			continue
		}
		newViol++
		h := sha1.Sum([]byte(s))
		path := filepath.Join(root(), "replays", fmt.Sprintf("%s-%x.json", p.ID, h[:5]))
		eng.WriteJSON(path, &eng.Replay{Property: p.ID, Tier: *fTier, Sig: s, Msg: v.Msg, Case: v.Case, Count: v.Count,
			HowTo: "cd /verif && ./check replay " + path})
		fmt.Printf("violation sig=%s count=%d\n  %s\n", s, v.Count, oneLine(v.Msg, 600))
		fmt.Printf("VIOLATION property=%s replay=%s\n", p.ID, path)
		vlist = append(vlist, map[string]any{"sig": s, "count": v.Count, "known": false, "replay": path})
	}
	for _, f := range total.Flaky {
		fmt.Println("NOTE: non-reproducible observation discarded:", f)
	}
	noteKeys := keys(total.Notes)
	for _, k := range noteKeys {
		fmt.Printf("NOTE: (observe-only) %s ×%d\n", k, total.Notes[k])
	}
	for _, k := range keys(total.Skipped) {
		fmt.Printf("NOTE: %d case(s) not judged: %s\n", total.Skipped[k], k)
	}

	// evidence
	wall := time.Since(start).Seconds()
	samples := []any{}
	for _, c := range total.NTSamples {
		if len(samples) < 3 {
			samples = append(samples, c)
		}
	}
	for _, c := range total.Samples {
		if len(samples) < 5 {
			samples = append(samples, c)
		}
	}
	if len(samples) == 0 {
		samples = append(samples, "no case executed")
	}
	cov := map[string]any{
		"states":                        max64(total.States, 0),
		"transitions":                   max64(total.Transitions, 0),
		"traces_validated_against_impl": total.Execs,
		"evaluations":                   total.Execs,
		"distinct_nontrivial":           total.Nontrivial,
		"rule":                          p.Rule,
		"samples":                       samples,
		"exhaustive":                    total.Complete,
		"outcome_classes":               len(total.Classes),
		"outcome_class_counts":          topClasses(total.Classes, 40),
		"instrumented":                  verifrt.Instrumented,
		"instrumenter_notes":            verifrt.Notes,
		"workers":                       n,
		"dead_workers":                  deadWorkers,
		"not_judged":                    total.Skipped,
		"observe_notes":                 total.Notes,
		"max_steps_per_execution":       total.MaxSteps,
		"deadline_s":                    dl,
		"violation_list":                vlist,
		"known_findings_hit":            knownHit,
		"flaky_discarded":               len(total.Flaky),
	}
	for k, v := range total.Extra {
		cov["x_"+k] = v
	}
	if p.Bounds != nil {
		cov["bounds"] = p.Bounds(*fTier)
	}
	ev := map[string]any{
		"property_id": p.ID,
		"tier":        *fTier,
		"seed":        *fSeed,
		"level":       "model_checking",
		"coverage":    cov,
		"assumptions": append([]string{"bounded exhaustive exploration on the real implementation; bounds in coverage.bounds"}, p.Assumptions...),
		"wall_s":      wall,
		"violations":  newViol,
	}
	os.MkdirAll(filepath.Join(root(), "evidence"), 0o755)
	if err := eng.WriteJSON(filepath.Join(root(), "evidence", p.ID+".json"), ev); err != nil {
		fmt.Fprintln(os.Stderr, "writing evidence:", err)
	}
	fmt.Printf("%s %s: states=%d transitions=%d executions=%d nontrivial=%d classes=%d exhaustive=%v instrumented=%v wall=%.1fs violations=%d known=%d\n",
		p.ID, *fTier, total.States, total.Transitions, total.Execs, total.Nontrivial, len(total.Classes), total.Complete, verifrt.Instrumented, wall, newViol, knownHit)
	if newViol > 0 {
		return 1
	}
	return 0
}

func keys(m map[string]int64) []string {
	var ks []string
	for k := range m {
		ks = append(ks, k)
	}
	sort.Strings(ks)
	return ks
}

func topClasses(m map[string]int64, n int) map[string]int64 {
	ks := keys(m)
	sort.SliceStable(ks, func(i, j int) bool { return m[ks[i]] > m[ks[j]] })
	out := map[string]int64{}
	for i, k := range ks {
		if i >= n {
			break
		}
		out[k] = m[k]
	}
	return out
}

func max64(a, b int64) int64 {
	if a > b {
		return a
	}
	return b
}

func oneLine(s string, n int) string {
	s = strings.ReplaceAll(s, "\n", " ⏎ ")
	if len(s) > n {
		s = s[:n] + "…"
	}
	return s
}
