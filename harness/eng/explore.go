package eng

import (
	"fmt"
)

// Engine B: depth-first exploration over recorded choice points (the idiom of the brief).
// An execution is driven by a prefix of choices; beyond the prefix every point takes choice 0.
// All points met are recorded with their arity and per-alternative cost; the explorer then
// branches on every later point whose alternative keeps the accumulated cost within the bound.

type Point struct {
	Kind  string
	Site  int
	Arity int
	// Cost of taking alternative i (Cost[0] is always 0). nil means every non-zero alternative costs 1.
	Cost []int
}

func (p *Point) cost(alt int) int {
	if alt == 0 {
		return 0
	}
	if p.Cost == nil {
		return 1
	}
	return p.Cost[alt]
}

// Chooser is handed to the execution; every source of controlled nondeterminism calls Choose.
type Chooser struct {
	newBound *int
	prefix   []int
	Points   []Point
	Choices  []int
	Diverged string
}

func (c *Chooser) Choose(kind string, site int, arity int, cost []int) int {
	i := len(c.Points)
	alt := 0
	if i < len(c.prefix) {
		alt = c.prefix[i]
		if alt >= arity {
			// replaying a prefix must meet the same points: anything else is a hard error
			if c.Diverged == "" {
				c.Diverged = fmt.Sprintf("point %d (%s site %d): prefix wants alternative %d but arity is %d", i, kind, site, alt, arity)
			}
			alt = 0
		}
	}
	c.Points = append(c.Points, Point{Kind: kind, Site: site, Arity: arity, Cost: cost})
	c.Choices = append(c.Choices, alt)
	return alt
}

// SetBound lowers the deviation bound of the exploration this execution belongs to.
func (c *Chooser) SetBound(b int) { c.newBound = &b }

// Spent returns the deviation cost accumulated so far.
func (c *Chooser) Spent() int {
	s := 0
	for i, p := range c.Points {
		s += p.cost(c.Choices[i])
	}
	return s
}

type ExploreStats struct {
	Executions int64
	Points     int64 // choice points met in total
	MaxPoints  int
	Deviating  int64 // executions with >= 1 non-default choice
	Truncated  bool
}

// Explore runs `run` for every choice sequence within the deviation bound. run receives a
// fresh Chooser; visit is called after every execution with the choices taken. If visit
// returns false, or stop() reports true, exploration ends early (Truncated).
func Explore(bound int, run func(ch *Chooser), visit func(ch *Chooser) bool, stop func() bool) (*ExploreStats, error) {
	return ExploreShard(bound, 0, 1, run, visit, stop)
}

// ExploreShard explores the part of the space that belongs to shard `shard` of `nshards`:
// executions without a costly deviation belong to shard 0; the subtree below a first costly
// deviation at point i belongs to shard i mod nshards. Free (cost 0) alternatives are followed
// by every shard until the first costly deviation decides the owner.
func ExploreShard(bound, shard, nshards int, run func(ch *Chooser), visit func(ch *Chooser) bool, stop func() bool) (*ExploreStats, error) {
	st := &ExploreStats{}
	var rec func(prefix []int, decided bool) (bool, error)
	rec = func(prefix []int, decided bool) (bool, error) {
		if stop != nil && stop() {
			st.Truncated = true
			return false, nil
		}
		ch := &Chooser{prefix: prefix}
		run(ch)
		if ch.newBound != nil && *ch.newBound < bound {
			bound = *ch.newBound
		}
		if ch.Diverged != "" {
			return false, fmt.Errorf("divergence while replaying prefix %v: %s", prefix, ch.Diverged)
		}
		if len(ch.Points) < len(prefix) {
			return false, fmt.Errorf("divergence: prefix %v has %d choices but the execution met only %d points", prefix, len(prefix), len(ch.Points))
		}
		judged := decided || shard == 0 // executions without a costly deviation are judged in shard 0 only
		if judged {
			st.Executions++
			st.Points += int64(len(ch.Points))
			if len(ch.Points) > st.MaxPoints {
				st.MaxPoints = len(ch.Points)
			}
			dev := false
			for _, c := range ch.Choices {
				if c != 0 {
					dev = true
				}
			}
			if dev {
				st.Deviating++
			}
			if !visit(ch) {
				st.Truncated = true
				return false, nil
			}
		}
		spent := 0
		for i := 0; i < len(ch.Points); i++ {
			if i < len(prefix) {
				spent += ch.Points[i].cost(ch.Choices[i])
				continue
			}
			p := ch.Points[i]
			for alt := 1; alt < p.Arity; alt++ {
				if spent+p.cost(alt) > bound {
					continue
				}
				nd := decided
				if !decided && p.cost(alt) > 0 {
					if nshards > 1 && i%nshards != shard {
						continue
					}
					nd = true
				}
				np := append(append([]int{}, ch.Choices[:i]...), alt)
				ok, err := rec(np, nd)
				if err != nil || !ok {
					return ok, err
				}
			}
			// beyond the prefix the default choice 0 was taken: no cost added
		}
		return true, nil
	}
	_, err := rec(nil, nshards <= 1)
	return st, err
}

// Perms returns the iteration orders offered for a map with n keys: index 0 is the identity
// (ascending keys). For n <= 4 all permutations; for n > 4 descending, the n-1 rotations and
// the n-1 adjacent transpositions (a stated cap).
func Perms(n int) [][]int {
	id := make([]int, n)
	for i := range id {
		id[i] = i
	}
	if n <= 4 {
		var out [][]int
		var gen func(cur []int, used []bool)
		gen = func(cur []int, used []bool) {
			if len(cur) == n {
				out = append(out, append([]int{}, cur...))
				return
			}
			for i := 0; i < n; i++ {
				if !used[i] {
					used[i] = true
					gen(append(cur, i), used)
					used[i] = false
				}
			}
		}
		gen(nil, make([]bool, n))
		return out // lexicographic: identity first
	}
	out := [][]int{id}
	desc := make([]int, n)
	for i := range desc {
		desc[i] = n - 1 - i
	}
	out = append(out, desc)
	for r := 1; r < n; r++ {
		p := make([]int, n)
		for i := range p {
			p[i] = (i + r) % n
		}
		out = append(out, p)
	}
	for i := 0; i+1 < n; i++ {
		p := append([]int{}, id...)
		p[i], p[i+1] = p[i+1], p[i]
		out = append(out, p)
	}
	return out
}

var permCache = map[int][][]int{}

func PermsCached(n int) [][]int {
	if p, ok := permCache[n]; ok {
		return p
	}
	p := Perms(n)
	permCache[n] = p
	return p
}
