package eng

import (
	"fmt"
	"time"

	"github.com/markusmobius/go-domdistiller/verifrt"
	"golang.org/x/net/html"
)

// Cooperative scheduler for stateless model checking of concurrent library calls.
// Threads are real goroutines; exactly one runs at a time. Every hook event that the current
// granularity declares a scheduling point hands control to the scheduler, which asks the Chooser
// which enabled thread continues. Switching away from a thread that could continue costs one
// preemption; the choice made when a thread ends is free.

type Access struct {
	Thread int
	Write  bool
}

type SchedEvent struct {
	Kind  int
	Site  int
	Arg   int
	Write bool
	Node  *html.Node
}

type Sched struct {
	ch       *Chooser
	n        int
	resume   []chan struct{}
	finished []bool
	cur      int
	done     chan struct{}
	// IsPoint decides whether an event is a scheduling point (granularity).
	IsPoint func(ev *SchedEvent) bool
	// OnEvent observes every event of every thread (race monitor); called with the thread id.
	OnEvent func(thread int, ev *SchedEvent)
	Steps   []int64 // scheduling points met per thread
	Horizon int64   // max scheduling points per thread (livelock guard)
	Failure string
	PanicOf []*PanicInfo
	blocked []bool
}

type schedAbort struct{}

// RunThreads executes the bodies as threads under the scheduler, driven by ch.
// It returns when all threads have finished (or the horizon was exceeded).
func (s *Sched) RunThreads(ch *Chooser, bodies []func()) {
	s.ch = ch
	s.n = len(bodies)
	s.resume = make([]chan struct{}, s.n)
	s.finished = make([]bool, s.n)
	s.blocked = make([]bool, s.n)
	s.Steps = make([]int64, s.n)
	s.PanicOf = make([]*PanicInfo, s.n)
	s.done = make(chan struct{})
	if s.Horizon == 0 {
		s.Horizon = 5_000_000
	}
	for i := range s.resume {
		s.resume[i] = make(chan struct{}, 1)
	}
	verifrt.Hook = s.hook
	verifrt.YieldBlocked = s.yieldBlocked
	for i := range bodies {
		i := i
		go func() {
			<-s.resume[i]
			if s.Failure == "" {
				s.PanicOf[i] = Protect(func() {
					defer func() {
						if r := recover(); r != nil {
							if _, ok := r.(schedAbort); !ok {
								panic(r)
							}
						}
					}()
					bodies[i]()
				})
			}
			s.finished[i] = true
			s.next(i, true)
		}()
	}
	// initial choice: which thread starts (free)
	first := s.pick(-1)
	s.cur = first
	s.resume[first] <- struct{}{}
	select {
	case <-s.done:
	case <-time.After(120 * time.Second):
		// a thread blocked outside the scheduler's control (e.g. an unhooked lock): inconclusive
		s.Failure = "stuck: a thread blocked outside the scheduler's control"
	}
	verifrt.Hook = nil
	verifrt.YieldBlocked = nil
}

// pick asks the chooser for the next thread. running is the thread that could continue (-1 if
// none): it is listed first and choosing another one costs a preemption.
func (s *Sched) pick(running int) int {
	var enabled []int
	if running >= 0 && !s.finished[running] && !s.blocked[running] {
		enabled = append(enabled, running)
	}
	for i := 0; i < s.n; i++ {
		if i != running && !s.finished[i] && !s.blocked[i] {
			enabled = append(enabled, i)
		}
	}
	if len(enabled) == 0 {
		// only blocked threads left: let them retry in id order (they spin through yieldBlocked)
		for i := 0; i < s.n; i++ {
			if !s.finished[i] {
				enabled = append(enabled, i)
			}
		}
		if len(enabled) == 0 {
			return -1
		}
	}
	if len(enabled) == 1 {
		return enabled[0]
	}
	var cost []int
	if running >= 0 && enabled[0] == running {
		cost = make([]int, len(enabled))
		for i := 1; i < len(cost); i++ {
			cost[i] = 1
		}
	} else {
		cost = make([]int, len(enabled)) // free choice
	}
	alt := s.ch.Choose("sched", 0, len(enabled), cost)
	return enabled[alt]
}

// next transfers control away from thread `from` (which has ended if ended is true).
func (s *Sched) next(from int, ended bool) {
	running := from
	if ended {
		running = -1
	}
	to := s.pick(running)
	if to < 0 {
		close(s.done)
		return
	}
	if to == from {
		return
	}
	s.cur = to
	s.resume[to] <- struct{}{}
	if !ended {
		<-s.resume[from]
		if s.Failure != "" {
			panic(schedAbort{})
		}
	}
}

func (s *Sched) hook(kind, site, arg int, write bool, n *html.Node) {
	t := s.cur
	ev := SchedEvent{Kind: kind, Site: site, Arg: arg, Write: write, Node: n}
	if s.OnEvent != nil {
		s.OnEvent(t, &ev)
	}
	if s.IsPoint != nil && !s.IsPoint(&ev) {
		return
	}
	s.Steps[t]++
	if s.Steps[t] > s.Horizon {
		if s.Failure == "" {
			s.Failure = fmt.Sprintf("horizon: thread %d met more than %d scheduling points", t, s.Horizon)
		}
		panic(schedAbort{})
	}
	s.blocked[t] = false
	s.next(t, false)
}

// yieldBlocked is called by the sync shims when the running thread cannot take a lock that
// another thread holds: the thread is marked blocked and control moves to another thread.
func (s *Sched) yieldBlocked() {
	t := s.cur
	s.Steps[t]++
	if s.Steps[t] > s.Horizon {
		if s.Failure == "" {
			s.Failure = fmt.Sprintf("deadlock or livelock: thread %d spins on a lock", t)
		}
		panic(schedAbort{})
	}
	s.blocked[t] = true
	allBlocked := true
	for i := 0; i < s.n; i++ {
		if !s.finished[i] && !s.blocked[i] {
			allBlocked = false
		}
	}
	if allBlocked {
		if s.Failure == "" {
			s.Failure = "deadlock: every unfinished thread waits for a lock"
		}
		panic(schedAbort{})
	}
	s.next(t, false)
	s.blocked[t] = false
}
