// Package eng is the generic part of the bounded-exhaustive explorer: case enumeration with
// canonical de-duplication, sharding over worker processes, execution of the property oracle
// on the real library, violation confirmation by replay, known-findings handling, replay files
// and the evidence writer.
package eng

import (
	"crypto/sha1"
	"encoding/hex"
	"encoding/json"
	"fmt"
	"os"
	"runtime"
	"runtime/debug"
	"sort"
	"strings"
	"time"
	"unicode/utf8"

	"github.com/markusmobius/go-domdistiller/verifrt"
)

// Case is one member of an explored space. It is fully self-describing so that it can be
// written to a replay file and re-executed without the explorer.
type Case struct {
	Kind  string            `json:"kind,omitempty"`
	HTML  string            `json:"html,omitempty"`
	URL   string            `json:"url,omitempty"`
	Algo  int               `json:"algo,omitempty"`
	Flags uint              `json:"flags,omitempty"`
	Skip  bool              `json:"skip,omitempty"`
	Nil   bool              `json:"nil_opts,omitempty"`
	P     map[string]string `json:"p,omitempty"`
	Ch    []int             `json:"choices,omitempty"`
}

// Cases cross process boundaries and go to replay files as JSON; bytes that are not valid UTF-8
// (byte-token inputs of C01/C11) would be replaced there, so they travel hex-encoded.
type caseJSON struct {
	Kind    string            `json:"kind,omitempty"`
	HTML    string            `json:"html,omitempty"`
	HTMLHex string            `json:"html_hex,omitempty"`
	URL     string            `json:"url,omitempty"`
	Algo    int               `json:"algo,omitempty"`
	Flags   uint              `json:"flags,omitempty"`
	Skip    bool              `json:"skip,omitempty"`
	Nil     bool              `json:"nil_opts,omitempty"`
	P       map[string]string `json:"p,omitempty"`
	Ch      []int             `json:"choices,omitempty"`
}

func (c Case) MarshalJSON() ([]byte, error) {
	j := caseJSON{Kind: c.Kind, HTML: c.HTML, URL: c.URL, Algo: c.Algo, Flags: c.Flags, Skip: c.Skip, Nil: c.Nil, P: c.P, Ch: c.Ch}
	if !utf8.ValidString(c.HTML) {
		j.HTML, j.HTMLHex = "", hex.EncodeToString([]byte(c.HTML))
	}
	if j.P != nil {
		// descriptions are for humans: make them valid UTF-8
		p := make(map[string]string, len(j.P))
		for k, v := range j.P {
			p[k] = strings.ToValidUTF8(v, "\uFFFD")
		}
		j.P = p
	}
	return json.Marshal(j)
}

func (c *Case) UnmarshalJSON(b []byte) error {
	var j caseJSON
	if err := json.Unmarshal(b, &j); err != nil {
		return err
	}
	*c = Case{Kind: j.Kind, HTML: j.HTML, URL: j.URL, Algo: j.Algo, Flags: j.Flags, Skip: j.Skip, Nil: j.Nil, P: j.P, Ch: j.Ch}
	if j.HTMLHex != "" {
		raw, err := hex.DecodeString(j.HTMLHex)
		if err != nil {
			return err
		}
		c.HTML = string(raw)
	}
	return nil
}

func (c *Case) Key() string {
	var sb strings.Builder
	sb.WriteString(c.Kind)
	sb.WriteByte(0)
	sb.WriteString(c.HTML)
	sb.WriteByte(0)
	sb.WriteString(c.URL)
	fmt.Fprintf(&sb, "\x00%d\x00%d\x00%v\x00%v", c.Algo, c.Flags, c.Skip, c.Nil)
	if len(c.P) > 0 {
		ks := make([]string, 0, len(c.P))
		for k := range c.P {
			ks = append(ks, k)
		}
		sort.Strings(ks)
		for _, k := range ks {
			sb.WriteByte(0)
			sb.WriteString(k)
			sb.WriteByte('=')
			sb.WriteString(c.P[k])
		}
	}
	for _, x := range c.Ch {
		fmt.Fprintf(&sb, "\x00%d", x)
	}
	return sb.String()
}

func (c *Case) Get(k string) string {
	if c.P == nil {
		return ""
	}
	return c.P[k]
}

type Violation struct {
	Sig string `json:"sig"`
	Msg string `json:"msg"`
}

// Outcome is what a property oracle reports for one case.
type Outcome struct {
	Viol       []Violation
	Nontrivial bool
	Class      string   // outcome class label; number of distinct classes is reported
	Notes      []string // observe-only remarks, never violations
	Execs      int      // executions of the real code (default 1)
	Skipped    string   // non-empty: case could not be judged (e.g. library panicked in a non-C01 check)
	Truncated  bool     // the case's own exploration was cut short by the deadline
}

func (o *Outcome) V(sig, f string, a ...any) {
	o.Viol = append(o.Viol, Violation{Sig: sig, Msg: fmt.Sprintf(f, a...)})
}

type Prop struct {
	ID          string
	Rule        string
	Assumptions []string
	DesignRef   string
	// Enumerate emits every case of the tier's space, deterministically.
	Enumerate func(tier string, emit func(*Case))
	// Check executes the real code on one case and judges it.
	Check func(c *Case) *Outcome
	// Bounds describes the bounds of the tier for the evidence file.
	Bounds func(tier string) map[string]any
	// PanicIsViolation: a recovered library panic / step-budget overrun is a violation of this
	// property (C01). Otherwise the case is counted as skipped.
	PanicIsViolation bool
	// Custom, when set, replaces the generic enumerate/check driver in the worker (Engine B).
	Custom func(w *Worker)
	// NondeterminismIsViolation: a violation that shows in some but not all of the three executions
	// of a case is reported (marked intermittent) instead of being discarded as flaky. Only for
	// properties whose statement is determinism itself (C11).
	NondeterminismIsViolation bool
	// Prepare, when set, runs once in the parent process before the workers start (e.g. to build
	// a shared corpus file that every worker then loads).
	Prepare func(tier string)
	// StepBudget per Check call (0 = default).
	StepBudget int64
}

var Registry = map[string]*Prop{}

// Deadline is the wall-clock backstop of the running worker (zero = none). Hitting it never
// produces a violation: exploration stops and the run is reported as not exhaustive.
var Deadline time.Time

func TimeUp() bool { return !Deadline.IsZero() && time.Now().After(Deadline) }

// Tier is the tier of the running check ("quick" or "thorough").
var Tier = "quick"

// SubModes are auxiliary process modes (e.g. a fresh process per call history).
var SubModes = map[string]func(arg string) int{}

func Register(p *Prop) { Registry[p.ID] = p }

// ---------------------------------------------------------------------------------------------

type VRec struct {
	Sig   string `json:"sig"`
	Msg   string `json:"msg"`
	Case  *Case  `json:"case"`
	Count int    `json:"count"`
}

// Summary is what a worker reports to the parent.
type Summary struct {
	States      int64            `json:"states"`
	Transitions int64            `json:"transitions"`
	Execs       int64            `json:"execs"`
	Nontrivial  int64            `json:"nontrivial"`
	Classes     map[string]int64 `json:"classes"`
	Viol        map[string]*VRec `json:"viol"`
	Notes       map[string]int64 `json:"notes"`
	Skipped     map[string]int64 `json:"skipped"`
	Flaky       []string         `json:"flaky"`
	Samples     []*Case          `json:"samples"`
	NTSamples   []*Case          `json:"nt_samples"`
	Complete    bool             `json:"complete"`
	Extra       map[string]int64 `json:"extra"`
	MaxSteps    int64            `json:"max_steps"`
}

func NewSummary() *Summary {
	return &Summary{Classes: map[string]int64{}, Viol: map[string]*VRec{}, Notes: map[string]int64{},
		Skipped: map[string]int64{}, Extra: map[string]int64{}}
}

func (s *Summary) Merge(o *Summary) {
	s.States += o.States
	s.Transitions += o.Transitions
	s.Execs += o.Execs
	s.Nontrivial += o.Nontrivial
	for k, v := range o.Classes {
		s.Classes[k] += v
	}
	for k, v := range o.Notes {
		s.Notes[k] += v
	}
	for k, v := range o.Skipped {
		s.Skipped[k] += v
	}
	for k, v := range o.Extra {
		s.Extra[k] += v
	}
	for k, v := range o.Viol {
		if e, ok := s.Viol[k]; ok {
			e.Count += v.Count
			if len(v.Case.Key()) < len(e.Case.Key()) {
				e.Case, e.Msg = v.Case, v.Msg
			}
		} else {
			s.Viol[k] = v
		}
	}
	s.Flaky = append(s.Flaky, o.Flaky...)
	if len(s.Samples) < 6 {
		s.Samples = append(s.Samples, o.Samples...)
	}
	if len(s.NTSamples) < 6 {
		s.NTSamples = append(s.NTSamples, o.NTSamples...)
	}
	if o.MaxSteps > s.MaxSteps {
		s.MaxSteps = o.MaxSteps
	}
}

// Worker is the state of one worker process.
type Worker struct {
	P        *Prop
	Tier     string
	Index    int
	N        int
	Seed     int64
	Deadline time.Time
	Sum      *Summary
	seen     map[[16]byte]struct{}
	stopped  bool
	// TransOnly: count transitions in every worker but only worker 0 reports them.
}

const DefaultBudget = 20_000_000

func (w *Worker) Run() {
	w.Sum = NewSummary()
	w.seen = map[[16]byte]struct{}{}
	w.Sum.Complete = true
	Deadline = w.Deadline
	if w.P.Custom != nil {
		w.P.Custom(w)
		return
	}
	defer func() {
		if r := recover(); r != nil {
			if _, ok := r.(stopEnum); !ok {
				panic(r)
			}
		}
	}()
	w.P.Enumerate(w.Tier, func(c *Case) {
		if w.stopped {
			panic(stopEnum{}) // unwind the enumerator: the deadline was hit
		}
		w.Offer(c)
	})
}

type stopEnum struct{}

// Mine decides by key hash whether this worker owns the case, and de-duplicates.
func (w *Worker) Mine(key string) bool {
	h := sha1.Sum([]byte(key))
	if int(uint32(h[0])|uint32(h[1])<<8|uint32(h[2])<<16)%w.N != w.Index {
		return false
	}
	var k [16]byte
	copy(k[:], h[:16])
	if _, dup := w.seen[k]; dup {
		return false
	}
	w.seen[k] = struct{}{}
	return true
}

func (w *Worker) TimeUp() bool {
	if w.stopped {
		return true
	}
	if !w.Deadline.IsZero() && time.Now().After(w.Deadline) {
		w.stopped = true
		w.Sum.Complete = false
		return true
	}
	return false
}

// Offer is called for every generated transition (case); it executes the case if this worker
// owns it and has not seen it.
func (w *Worker) Offer(c *Case) {
	if w.Index == 0 {
		w.Sum.Transitions++ // every worker enumerates the same sequence; count once
	}
	if !w.Mine(c.Key()) {
		return
	}
	if w.Sum.States&63 == 0 && w.TimeUp() {
		return
	}
	w.Sum.States++
	o := w.Exec(c)
	w.Record(c, o)
}

// CurFile, when set, receives the case about to be executed (so that the parent can name the
// case that killed a worker process).
var CurFile *os.File

// Exec runs the oracle under recover and the step budget, and confirms violations by replay.
func (w *Worker) Exec(c *Case) *Outcome {
	if CurFile != nil && w.P.PanicIsViolation {
		b, _ := json.Marshal(c)
		CurFile.Truncate(0)
		CurFile.WriteAt(b, 0)
	}
	o := SafeCheck(w.P, c)
	if len(o.Viol) > 0 {
		// believe a failure only after replay: same case, same signatures, twice more
		for i := 0; i < 2; i++ {
			o2 := SafeCheck(w.P, c)
			if sigs(o2) != sigs(o) {
				if w.P.NondeterminismIsViolation {
					// the property is determinism: an answer that changes between identical runs is the violation
					for j := range o.Viol {
						o.Viol[j].Sig += ":intermittent"
						o.Viol[j].Msg += fmt.Sprintf(" [not on every run: first run %s, a repeat %s]", sigs(o), sigs(o2))
					}
					return o
				}
				w.Sum.Flaky = append(w.Sum.Flaky, fmt.Sprintf("case %q: first run %s, replay %s", short(c.Key()), sigs(o), sigs(o2)))
				o.Viol = nil
				o.Skipped = "flaky"
				break
			}
		}
	} else if w.P.NondeterminismIsViolation && c.Kind == "history" {
		// histories touching pooled or cached state may misbehave only sometimes: look twice more
		for i := 0; i < 2; i++ {
			if o2 := SafeCheck(w.P, c); len(o2.Viol) > 0 {
				for j := range o2.Viol {
					o2.Viol[j].Sig += ":intermittent"
					o2.Viol[j].Msg += " [not on every run]"
				}
				o2.Execs += o.Execs
				return o2
			}
		}
	}
	return o
}

func sigs(o *Outcome) string {
	var s []string
	for _, v := range o.Viol {
		s = append(s, v.Sig)
	}
	sort.Strings(s)
	return strings.Join(s, "|")
}

func short(s string) string {
	s = strings.ReplaceAll(s, "\x00", "¦")
	if len(s) > 300 {
		return s[:300] + "…"
	}
	return s
}

func (w *Worker) Record(c *Case, o *Outcome) {
	s := w.Sum
	if o.Execs == 0 {
		o.Execs = 1
	}
	s.Execs += int64(o.Execs)
	if o.Skipped != "" {
		s.Skipped[o.Skipped]++
	}
	if o.Truncated {
		s.Complete = false
		s.Skipped["exploration of one case cut short by the deadline"]++
	}
	if o.Nontrivial {
		s.Nontrivial++
		if len(s.NTSamples) < 2 {
			s.NTSamples = append(s.NTSamples, c)
		}
	}
	if o.Class != "" {
		s.Classes[o.Class]++
	}
	for _, n := range o.Notes {
		s.Notes[n]++
	}
	if len(s.Samples) < 1 || (s.States%100003 == int64(w.Seed%977) && len(s.Samples) < 3) {
		s.Samples = append(s.Samples, c)
	}
	for _, v := range o.Viol {
		if e, ok := s.Viol[v.Sig]; ok {
			e.Count++
			if len(c.Key()) < len(e.Case.Key()) {
				e.Case, e.Msg = c, v.Msg
			}
		} else {
			s.Viol[v.Sig] = &VRec{Sig: v.Sig, Msg: v.Msg, Case: c, Count: 1}
		}
	}
	if verifrt.Steps > s.MaxSteps {
		s.MaxSteps = verifrt.Steps
	}
}

// PanicInfo describes a recovered panic in library code.
type PanicInfo struct {
	Value string
	Func  string // first frame inside the repository's module
	Stack string
}

func (p *PanicInfo) Sig() string {
	if strings.Contains(p.Value, "step budget exceeded") {
		return "loop@" + p.Func
	}
	return "panic@" + p.Func
}

// Protect runs f and converts a panic into PanicInfo.
func Protect(f func()) (pi *PanicInfo) {
	defer func() {
		if r := recover(); r != nil {
			pi = &PanicInfo{Value: fmt.Sprint(r), Stack: string(debug.Stack())}
			pi.Func = firstRepoFrame()
		}
	}()
	f()
	return nil
}

const modPrefix = "github.com/markusmobius/go-domdistiller"

func firstRepoFrame() string {
	pcs := make([]uintptr, 64)
	n := runtime.Callers(3, pcs)
	frames := runtime.CallersFrames(pcs[:n])
	for {
		fr, more := frames.Next()
		if strings.HasPrefix(fr.Function, modPrefix) && !strings.Contains(fr.Function, "/verifrt.") {
			fn := strings.TrimPrefix(fr.Function, modPrefix)
			fn = strings.TrimPrefix(fn, "/")
			// drop closure suffixes such as .func1.2
			for {
				i := strings.LastIndex(fn, ".")
				if i < 0 {
					break
				}
				tail := fn[i+1:]
				if strings.HasPrefix(tail, "func") || isDigits(tail) {
					fn = fn[:i]
					continue
				}
				break
			}
			return fn
		}
		if !more {
			break
		}
	}
	return "unknown"
}

func isDigits(s string) bool {
	if s == "" {
		return false
	}
	for _, r := range s {
		if r < '0' || r > '9' {
			return false
		}
	}
	return true
}

// SafeCheck runs the oracle; a panic escaping the oracle (i.e. one the oracle did not itself
// convert) is attributed per Prop.PanicIsViolation.
func SafeCheck(p *Prop, c *Case) *Outcome {
	var o *Outcome
	verifrt.Reset()
	verifrt.Budget = p.StepBudget
	if verifrt.Budget == 0 {
		verifrt.Budget = DefaultBudget
	}
	verifrt.On = true
	pi := Protect(func() { o = p.Check(c) })
	verifrt.On = false
	if pi != nil {
		o = &Outcome{}
		if p.PanicIsViolation {
			o.V(pi.Sig(), "%s", pi.Value)
		} else {
			o.Skipped = pi.Sig()
		}
	}
	return o
}

// ---------------------------------------------------------------------------------------------

type Known struct {
	Kind string // "known" or "fixed"
	Prop string
	Sig  string
	Desc string
}

func LoadKnown(path string) []Known {
	b, err := os.ReadFile(path)
	if err != nil {
		return nil
	}
	var out []Known
	for _, l := range strings.Split(string(b), "\n") {
		l = strings.TrimSpace(l)
		if l == "" || strings.HasPrefix(l, "#") {
			continue
		}
		var k Known
		switch {
		case strings.HasPrefix(l, "known:"):
			k.Kind = "known"
			l = strings.TrimSpace(l[6:])
		case strings.HasPrefix(l, "fixed:"):
			k.Kind = "fixed"
			l = strings.TrimSpace(l[6:])
		default:
			continue
		}
		for _, f := range strings.Fields(l) {
			if strings.HasPrefix(f, "property=") {
				k.Prop = f[9:]
			} else if strings.HasPrefix(f, "sig=") {
				k.Sig = f[4:]
			}
		}
		k.Desc = l
		out = append(out, k)
	}
	return out
}

type Replay struct {
	Property string `json:"property"`
	Tier     string `json:"tier"`
	Sig      string `json:"sig"`
	Msg      string `json:"msg"`
	Case     *Case  `json:"case"`
	Count    int    `json:"count_in_run"`
	HowTo    string `json:"how_to_replay"`
}

func WriteJSON(path string, v any) error {
	b, err := json.MarshalIndent(v, "", " ")
	if err != nil {
		return err
	}
	return os.WriteFile(path, append(b, '\n'), 0o644)
}
