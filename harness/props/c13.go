package props

import (
	"fmt"
	nurl "net/url"
	"strings"

	distiller "github.com/markusmobius/go-domdistiller"
	"verif/harness/eng"
	"verif/harness/ora"
)

// C13 — options do only what they say.

var c13Atoms = append(append([]ora.Atom{}, c09Atoms...),
	ora.Atom{Name: "PAGER", Gen: func(t *ora.Tok) string {
		return "<div class=\"pagination\"><a href=\"/story?page=1\">1</a> 2 <a href=\"/story?page=3\">3</a> <a href=\"/story?page=4&amp;s=1\">4</a> <a href=\"/story?page=3\" class=\"next\">Next</a> <a href=\"/story?page=1\">Prev</a></div>"
	}},
	ora.Atom{Name: "PAGER2", Gen: func(t *ora.Tok) string {
		return "<ul><li><a href=\"http://example.com/a/b/story-1.html\">1</a></li><li><a href=\"http://example.com/a/b/story-2.html\">2</a></li><li>3</li><li><a href=\"http://example.com/a/b/story-4.html\">4</a></li></ul>"
	}},
	ora.Atom{Name: "LBL", Gen: func(t *ora.Tok) string {
		return "<div class=\"comment\"><h3>" + t.W(3) + "</h3><ul><li>" + t.W(12) + "</li><li>" + t.W(9) + " <a href=\"/x\">" + t.W(2) + "</a></li></ul></div>"
	}},
	ora.Atom{Name: "FALLB", Gen: func(t *ora.Tok) string {
		return "<p>" + t.W(12) + " <span class=\"mwe-math-fallback-image-inline\" aria-hidden=\"true\">" + t.W(2) + "</span> " + t.W(8) + "</p><img class=\"fallback-image\" aria-hidden=\"true\" src=\"http://example.com/img/" + t.U() + ".png\" width=\"400\" height=\"300\">"
	}},
	ora.Atom{Name: "ARIAf", Gen: func(t *ora.Tok) string {
		return "<p>" + t.W(12) + " <span aria-hidden=\"false\" style=\"display:inline\">" + t.W(2) + "</span> <span aria-hidden=\"true\">" + t.W(1) + "</span> " + t.W(8) + "</p>"
	}},
	ora.Atom{Name: "PAGER3", Gen: func(t *ora.Tok) string {
		// two pagers whose Prev/Next links differ only by a tracking parameter: equal scores
		return "<div class=\"pagination\"><a href=\"/story?ref=a&amp;page=1\">Prev</a> <a href=\"/story?ref=a&amp;page=3\">Next</a></div><p>" + t.W(21) + "</p><div class=\"pagination\"><a href=\"/story?ref=b&amp;page=1\">Prev</a> <a href=\"/story?ref=b&amp;page=3\">Next</a></div>"
	}},
	ora.Atom{Name: "TEASERS", Gen: func(t *ora.Tok) string {
		var sb strings.Builder
		for i := 1; i <= 8; i++ {
			sb.WriteString(fmt.Sprintf("<div class=\"teaser\"><h3><a href=\"/story/item-%d?page=2\">%s</a></h3><a href=\"/story/item-%d?page=2&amp;more=1\">more »</a></div>", i, t.W(3), i))
		}
		return sb.String()
	}},
	ora.Atom{Name: "OG", Gen: func(t *ora.Tok) string {
		return "<div itemscope itemtype=\"http://schema.org/Article\"><span itemprop=\"headline\">" + t.W(3) + "</span><span itemprop=\"author\">" + t.W(2) + "</span></div>"
	}},
)

var c13Alphabet = []string{"Pc", "Pb", "H", "UL3", "TBLd", "TBLl", "TBLi", "IMG", "IMGss", "LAZY", "FIG", "FIGl", "VID", "YT", "TW", "INL", "JS1", "HIDs", "PAGER", "PAGER2", "PAGER3", "LBL", "OG", "FALLB", "ARIAf", "TEASERS"}

const c13URL = "http://example.com/story?page=2#section-2"

func c13Enumerate(tier string, emit func(*eng.Case)) {
	atoms := c13Atoms
	alpha := ora.AtomIndex(atoms, c13Alphabet...)
	starts := ora.StdSkeletons(atoms)
	maxE := 1
	if tier == "thorough" {
		maxE = 2
	}
	ora.EnumDocs(starts, alpha, maxE, func(d *ora.DocModel, edits int) {
		emit(caseFromModel("configs", d, atoms, c13URL))
	})
	// documents of the other checks (quick: every 5th document of the cross corpus)
	every := 5
	if tier == "thorough" {
		every = 1
	}
	crossEmit("C13", tier, "configs", every, func(c *eng.Case) {
		if c.URL == "" {
			c.URL = c13URL
		}
		c.Algo = 0
		emit(c)
	})
	if tier != "thorough" {
		// quick: additionally every pair that includes a pager atom, in S1
		pagers := ora.AtomIndex(atoms, "PAGER", "PAGER2")
		for _, pg := range pagers {
			s := starts[0]
			base := &ora.DocModel{Skel: s.Skel, Top: append(append([]int{}, s.Top...), pg), ArtC: s.ArtC}
			ora.EnumDocs([]*ora.DocModel{base}, alpha, 1, func(d *ora.DocModel, edits int) {
				emit(caseFromModel("configs", d, atoms, c13URL))
			})
		}
	}
}

func c13Check(c *eng.Case) *eng.Outcome {
	o := &eng.Outcome{}
	type run struct {
		content string
		pag     string
		url     string
	}
	var ref [2]*run // per URL class
	pagRef := map[string]string{}
	sawPag := false
	for urlSet := 0; urlSet < 2; urlSet++ {
		for skip := 0; skip < 2; skip++ {
			for algo := 0; algo < 2; algo++ {
				for fl := 0; fl < 16; fl++ {
					cc := &eng.Case{HTML: c.HTML, Algo: algo, Flags: uint(fl) << 1, Skip: skip == 1}
					if urlSet == 1 {
						cc.URL = c.URL
					}
					_, res, err, pi := ora.Run(cc)
					o.Execs++
					cfg := fmt.Sprintf("url=%v skip=%v algo=%d flags=%d", urlSet == 1, skip == 1, algo, fl<<1)
					if pi != nil {
						o.Skipped = pi.Sig()
						return o
					}
					if err != nil || res == nil {
						o.Skipped = "error"
						return o
					}
					r := &run{content: contentKey(res), pag: fmt.Sprintf("%q|%q", res.PaginationInfo.PrevPage, res.PaginationInfo.NextPage), url: res.URL}
					if ref[urlSet] == nil {
						ref[urlSet] = r
					} else if r.content != ref[urlSet].content {
						what := "flags"
						if fl == 0 {
							what = "pagination-option"
						}
						o.V("content-varies:"+what, "with %s the content fields differ from the first configuration of the same URL class: %s; doc %s", cfg, firstDiff(ref[urlSet].content, r.content), c.Get("doc"))
					}
					wantURL := ""
					if urlSet == 1 {
						wantURL = c.URL
						// the caller supplies a *url.URL: its String() form is what "the supplied URL" means
						// (a raw non-ASCII path is escaped by it)
						if pu, err := nurl.Parse(c.URL); err == nil {
							wantURL = pu.String()
						}
					}
					if res.URL != wantURL {
						o.V("result-url", "Result.URL=%q, supplied %q (%s)", res.URL, wantURL, cfg)
					}
					if (skip == 1 || urlSet == 0) && r.pag != `""|""` {
						o.V("pagination-not-empty", "PaginationInfo=%s although pagination is skipped or no URL is given (%s); doc %s", r.pag, cfg, c.Get("doc"))
					}
					pk := fmt.Sprintf("%d/%d/%d", urlSet, skip, algo)
					if p, ok := pagRef[pk]; !ok {
						pagRef[pk] = r.pag
					} else if p != r.pag {
						o.V("pagination-varies-with-flags", "PaginationInfo %s vs %s for the same (URL, skip, algorithm) under different log flags (%s); doc %s", p, r.pag, cfg, c.Get("doc"))
					}
					if r.pag != `""|""` {
						sawPag = true
					}
				}
			}
		}
	}
	o.Nontrivial = sawPag
	o.Class = fmt.Sprintf("pagination-found=%v", sawPag)
	return o
}

func contentKey(r *distiller.Result) string {
	return fmt.Sprintf("T=%q\nW=%d\nI=%v\nM=%+v\nX=%q\nH=%s", r.Title, r.WordCount, r.ContentImages, r.MarkupInfo, r.Text, ora.Render(r.Node))
}

func init() {
	eng.Register(&eng.Prop{
		ID:        "C13",
		DesignRef: "§5 C13",
		Rule: "corpus = S1,S2 with <= 1 insertion (quick; plus all pairs containing a pager atom) / <= 2 insertions (thorough) over 26 atoms chosen for what the logging code walks (tables, images, embeds, three pagers, a teaser list with 16 equally scored next-links, visibility special cases (fallback-image, aria-hidden), multi-label comment block, schema.org item); each document is executed under all 128 configurations (16 log-flag sets x URL nil/set x SkipPagination x 2 algorithms)." + crossRule + " (quick: every 5th document of it) " +
			"Oracle: Title/Text/HTML/WordCount/ContentImages/MarkupInfo identical across the 64 configurations of a URL class; PaginationInfo identical across flag sets for fixed (URL, skip, algorithm) and empty when skipped or without URL; Result.URL = supplied URL. Non-trivial = some configuration found a pagination link.",
		Enumerate: c13Enumerate,
		Check:     c13Check,
		Prepare:   func(tier string) { CrossCorpus(tier) },
		Bounds: func(tier string) map[string]any {
			e := 1
			if tier == "thorough" {
				e = 2
			}
			return map[string]any{"max_edits": e, "atoms": len(c13Alphabet), "configurations": 128, "cross": crossBounds(tier)}
		},
	})
}
