package props

import (
	"fmt"
	"strings"

	"golang.org/x/net/html"
	"verif/harness/eng"
	"verif/harness/ora"
)

// C18 — tables are classified by the documented rule cascade.

type c18Feature struct {
	name string
	vals []string
}

var c18Features = []c18Feature{
	{"editable", []string{"no", "yes"}},
	{"role", []string{"none", "presentation", "grid", "treegrid", "main", "other", "rowgroup", "columnheader"}},
	{"drole", []string{"none", "row", "navigation", "other"}},
	{"datatable", []string{"absent", "0", "1"}},
	{"nested", []string{"no", "yes", "yes-role-main", "yes-role-search"}},
	{"shape", []string{"3x4", "1x2", "2x1", "2x2", "2x4", "2x5", "4+4+2", "4+4+3", "19x2", "20x2", "20x1+4x2", "19x1+5x2", "1+2+2", "2x1+1x5"}},
	{"header", []string{"none", "caption", "thead", "tfoot", "colgroup", "col", "th", "caption-empty", "th-empty", "colgroup+th-empty", "col+th-empty", "th-empty-then-th", "caption-empty+thead", "caption-empty+col", "th-empty+tfoot"}},
	{"cell", []string{"none", "abbr-attr", "headers-attr", "scope-attr", "abbr-lone", "abbr-plus"}},
	{"summary", []string{"no", "yes"}},
	{"embedded", []string{"none", "embed", "object", "applet", "iframe"}},
}

var c18Contexts = []string{"body", "div", "li", "blockquote", "layout-cell", "editable-two", "editable-two-nested-wrapper", "after-abbr-table", "after-summary-table", "after-5col-table", "after-20row-table", "after-th-table", "after-layout-table"}

func c18Rows(shape string) []int {
	rep := func(n, c int) []int {
		out := make([]int, n)
		for i := range out {
			out[i] = c
		}
		return out
	}
	switch shape {
	case "20x1+4x2":
		return append(rep(20, 1), rep(4, 2)...)
	case "19x1+5x2":
		return append(rep(19, 1), rep(5, 2)...)
	case "1+2+2":
		return []int{1, 2, 2}
	case "2x1+1x5":
		return []int{1, 1, 5}
	case "4+4+2":
		return []int{4, 4, 2}
	case "4+4+3":
		return []int{4, 4, 3}
	}
	var r, c int
	fmt.Sscanf(shape, "%dx%d", &r, &c)
	out := make([]int, r)
	for i := range out {
		out[i] = c
	}
	return out
}

func c18Table(v []int, t *ora.Tok) string {
	f := func(i int) string { return c18Features[i].vals[v[i]] }
	var attrs []string
	if r := f(1); r != "none" {
		if r == "other" {
			r = "figure"
		}
		if r == "rowgroup" {
			r = "RowGroup" // roles are compared case-insensitively
		}
		attrs = append(attrs, "role=\""+r+"\"")
	}
	if d := f(3); d != "absent" {
		attrs = append(attrs, "datatable=\""+d+"\"")
	}
	if f(8) == "yes" {
		attrs = append(attrs, "summary=\"layout of things\"")
	}
	var sb strings.Builder
	sb.WriteString("<table")
	for _, a := range attrs {
		sb.WriteString(" " + a)
	}
	sb.WriteString(">")
	hdr := f(6)
	switch hdr {
	case "caption":
		sb.WriteString("<caption>" + t.W(2) + "</caption>")
	case "caption-empty", "caption-empty+thead":
		sb.WriteString("<caption> </caption>")
	case "caption-empty+col":
		sb.WriteString("<caption></caption><col>")
	case "colgroup", "colgroup+th-empty":
		sb.WriteString("<colgroup></colgroup>")
	case "col", "col+th-empty":
		sb.WriteString("<col>")
	}
	rows := c18Rows(f(5))
	openBody, closeBody := "", ""
	switch hdr {
	case "thead", "caption-empty+thead":
		openBody, closeBody = "<thead>", "</thead>"
	case "tfoot":
		openBody, closeBody = "<tfoot>", "</tfoot>"
	}
	cellIdx := 0
	total := 0
	for _, n := range rows {
		total += n
	}
	for ri, n := range rows {
		if ri == 0 {
			sb.WriteString(openBody)
		}
		tr := "<tr>"
		if ri == 0 {
			switch f(2) {
			case "row":
				tr = "<tr role=\"row\">"
			case "navigation":
				tr = "<tr role=\"navigation\">"
			case "other":
				tr = "<tr role=\"note\">"
			}
		}
		sb.WriteString(tr)
		for ci := 0; ci < n; ci++ {
			cellIdx++
			tag := "td"
			if ri == 0 && (hdr == "th" || strings.Contains(hdr, "th-empty")) {
				tag = "th"
			}
			open := "<" + tag
			content := t.W(1)
			if tag == "th" && strings.Contains(hdr, "th-empty") && !(hdr == "th-empty-then-th" && ci > 0) {
				content = ""
			}
			if cellIdx == total { // last cell carries the cell feature (it is a td unless the table has one row)
				switch f(7) {
				case "abbr-attr":
					open += " abbr=\"x\""
				case "headers-attr":
					open += " headers=\"h1\""
				case "scope-attr":
					open += " scope=\"row\""
				case "abbr-lone":
					content = "<abbr>" + t.W(1) + "</abbr>"
				case "abbr-plus":
					content = "<abbr>" + t.W(1) + "</abbr> <b>" + t.W(1) + "</b>"
				}
			}
			if cellIdx == 1 {
				// probe: a form control survives only inside a preserved data table (C04's exception),
				// so its presence in the output tells the two rendering paths apart
				content += "<button>zprobe</button>"
			}
			if cellIdx == 2 && total > 2 || (total <= 2 && cellIdx == 1) {
				switch f(4) {
				case "yes":
					content += "<table><tr><td>" + t.W(1) + "</td></tr></table>"
				case "yes-role-main":
					// a landmark role on the nested table element itself: it is a descendant of the outer table
					content += "<table role=\"main\"><tr><td>" + t.W(1) + "</td></tr></table>"
				case "yes-role-search":
					content += "<table role=\"Search\"><tr><td>" + t.W(1) + "</td></tr></table>"
				}
				switch f(9) {
				case "embed":
					content += "<embed src=\"http://example.com/x.swf\">"
				case "object":
					content += "<object data=\"http://example.com/x.bin\"></object>"
				case "applet":
					content += "<applet code=\"x\"></applet>"
				case "iframe":
					content += "<iframe src=\"http://frames.example.net/f\"></iframe>"
				}
			}
			sb.WriteString(open + ">" + content + "</" + tag + ">")
		}
		sb.WriteString("</tr>")
		if ri == 0 {
			sb.WriteString(closeBody)
		}
		if hdr == "th-empty+tfoot" && ri == len(rows)-2 {
			sb.WriteString("<tfoot>")
		}
		if hdr == "th-empty+tfoot" && ri == len(rows)-1 && len(rows) >= 2 {
			sb.WriteString("</tfoot>")
		}
	}
	sb.WriteString("</table>")
	return sb.String()
}

func c18Doc(v []int, ctx string) string {
	t := &ora.Tok{}
	pc := func() string { return "<p>" + t.W(21) + "</p>" }
	var sb strings.Builder
	sb.WriteString("<html><head><title>" + ora.DefaultTitle + "</title></head><body><div class=\"main\">" + pc() + pc())
	tbl := c18Table(v, t)
	if c18Features[0].vals[v[0]] == "yes" {
		tbl = "<div contenteditable=\"true\">" + tbl + "</div>"
	}
	// an earlier, different table in the same document ("the same table is classified the same way
	// wherever it occurs"): each one leaves by a different rule of the cascade
	pre := func(attrs, firstCell string, rows, cols int) string {
		var sb strings.Builder
		sb.WriteString("<table id=\"outer\"" + attrs + ">")
		for r := 0; r < rows; r++ {
			sb.WriteString("<tr>")
			for c := 0; c < cols; c++ {
				if r == 0 && c == 0 && firstCell != "" {
					sb.WriteString(firstCell)
					continue
				}
				sb.WriteString("<td>x" + fmt.Sprint(r*cols+c) + "y</td>")
			}
			sb.WriteString("</tr>")
		}
		sb.WriteString("</table>")
		return sb.String()
	}
	switch ctx {
	case "editable-two":
		// a second table in one editable area, sharing a wrapper with the first
		tbl = "<div contenteditable=\"true\"><div class=\"w\">" + pre("", "<th>x0y</th>", 3, 2) + "<p>" + t.W(21) + "</p><p>" + t.W(22) + "</p>" + tbl + "</div></div>"
	case "editable-two-nested-wrapper":
		tbl = "<div contenteditable=\"true\"><section><div>" + pre("", "", 2, 2) + "</div><p>" + t.W(21) + "</p><div><div>" + tbl + "</div></div></section></div>"
	case "after-abbr-table":
		tbl = pre("", "<td abbr=\"a\">x0y</td>", 2, 2) + "<p>" + t.W(21) + "</p><p>" + t.W(22) + "</p>" + tbl
	case "after-summary-table":
		tbl = pre(" summary=\"s\"", "", 2, 2) + "<p>" + t.W(21) + "</p><p>" + t.W(22) + "</p>" + tbl
	case "after-5col-table":
		tbl = pre("", "", 2, 5) + "<p>" + t.W(21) + "</p><p>" + t.W(22) + "</p>" + tbl
	case "after-20row-table":
		tbl = pre("", "", 20, 2) + "<p>" + t.W(21) + "</p><p>" + t.W(22) + "</p>" + tbl
	case "after-th-table":
		tbl = pre("", "<th>x0y</th>", 3, 2) + "<p>" + t.W(21) + "</p><p>" + t.W(22) + "</p>" + tbl
	case "after-layout-table":
		tbl = pre(" role=\"presentation\"", "", 3, 4) + "<p>" + t.W(21) + "</p><p>" + t.W(22) + "</p>" + tbl
	case "div":
		tbl = "<div>" + tbl + "</div>"
	case "li":
		tbl = "<ul><li>" + tbl + "</li></ul>"
	case "blockquote":
		tbl = "<blockquote>" + tbl + "</blockquote>"
	case "layout-cell":
		tbl = "<table id=\"outer\"><tr><td>" + tbl + "</td></tr></table>"
	}
	sb.WriteString(tbl + pc() + "</div></body></html>")
	return sb.String()
}

func c18Enumerate(tier string, emit func(*eng.Case)) {
	emit = withDecor(decorEvery(tier), emit)
	nf := len(c18Features)
	mk := func(v []int, ctx string) {
		var parts []string
		for i, x := range v {
			if x != 0 {
				parts = append(parts, c18Features[i].name+"="+c18Features[i].vals[x])
			}
		}
		vs := make([]string, nf)
		for i, x := range v {
			vs[i] = fmt.Sprint(x)
		}
		emit(&eng.Case{Kind: "table", P: map[string]string{"v": strings.Join(vs, ","), "ctx": ctx, "doc": ctx + ": " + strings.Join(parts, " ")}})
	}
	var rec func(i int, v []int, dev, maxDev int, ctx string)
	rec = func(i int, v []int, dev, maxDev int, ctx string) {
		if i == nf {
			mk(v, ctx)
			return
		}
		for x := range c18Features[i].vals {
			d := dev
			if x != 0 {
				d++
			}
			if d > maxDev {
				continue
			}
			v[i] = x
			rec(i+1, v, d, maxDev, ctx)
		}
		v[i] = 0
	}
	for ci, ctx := range c18Contexts {
		maxDev := 3
		if ci > 0 {
			maxDev = 2
		}
		if tier == "thorough" {
			maxDev = nf
			if ci > 0 {
				maxDev = 3
			}
		}
		rec(0, make([]int, nf), 0, maxDev, ctx)
	}
}

// c18Ref applies the statement's decision list to the features measured on the parsed table.
// cellsAsTD selects the reading of "cell"/"column" (td only, or td and th).
func c18Ref(tbl *html.Node, tdOnly bool) (string, int) {
	// 1 editable ancestor
	for p := tbl.Parent; p != nil; p = p.Parent {
		if p.Type == html.ElementNode && strings.EqualFold(ora.AttrV(p, "contenteditable"), "true") {
			return "layout", 1
		}
	}
	role := strings.ToLower(ora.AttrV(tbl, "role"))
	if role == "presentation" {
		return "layout", 2
	}
	landmark := map[string]bool{"application": true, "banner": true, "complementary": true, "contentinfo": true, "form": true, "main": true, "navigation": true, "search": true}
	if role == "grid" || role == "treegrid" || landmark[role] {
		return "data", 3
	}
	// own descendants (not those of nested tables)
	var own []*html.Node
	nested := false
	ora.Walk(tbl, func(n *html.Node) bool {
		if n == tbl {
			return true
		}
		if n.Type == html.ElementNode {
			own = append(own, n)
			if n.Data == "table" {
				nested = true // the nested table element is a descendant; what is inside it belongs to it
				return false
			}
		}
		return true
	})
	drole := map[string]bool{"gridcell": true, "columnheader": true, "row": true, "rowgroup": true, "rowheader": true}
	for _, e := range own {
		r := strings.ToLower(ora.AttrV(e, "role"))
		if drole[r] || landmark[r] {
			return "data", 4
		}
	}
	if ora.AttrV(tbl, "datatable") == "0" {
		return "layout", 5
	}
	if nested {
		return "layout", 6
	}
	rows, cols, cells := 0, 0, 0
	for _, e := range own {
		if e.Data == "tr" {
			rows++
			n := 0
			for c := e.FirstChild; c != nil; c = c.NextSibling {
				if c.Type == html.ElementNode && (c.Data == "td" || (!tdOnly && c.Data == "th")) {
					n++
				}
			}
			if n > cols {
				cols = n
			}
			cells += n
		}
	}
	if rows <= 1 || cols <= 1 {
		return "layout", 7
	}
	for _, e := range own {
		switch e.Data {
		case "caption", "thead", "tfoot", "colgroup", "col", "th":
			return "data", 8
		}
	}
	for _, e := range own {
		if e.Data != "td" && (tdOnly || e.Data != "th") {
			continue
		}
		if _, ok := ora.Attr(e, "abbr"); ok {
			return "data", 9
		}
		if _, ok := ora.Attr(e, "headers"); ok {
			return "data", 9
		}
		if _, ok := ora.Attr(e, "scope"); ok {
			return "data", 9
		}
		var kids []*html.Node
		ora.Walk(e, func(n *html.Node) bool {
			if n != e && n.Type == html.ElementNode {
				kids = append(kids, n)
			}
			return true
		})
		if len(kids) == 1 && kids[0].Data == "abbr" {
			return "data", 9
		}
	}
	if _, ok := ora.Attr(tbl, "summary"); ok {
		return "data", 10
	}
	if cols >= 5 {
		return "data", 11
	}
	if rows >= 20 {
		return "data", 12
	}
	if cells <= 10 {
		return "layout", 13
	}
	for _, e := range own {
		switch e.Data {
		case "embed", "object", "applet", "iframe":
			return "layout", 14
		}
	}
	return "data", 15
}

func c18Render(c *eng.Case) string {
	var v []int
	for _, s := range strings.Split(c.Get("v"), ",") {
		var x int
		fmt.Sscan(s, &x)
		v = append(v, x)
	}
	if len(v) != len(c18Features) {
		return ""
	}
	return c18Doc(v, c.Get("ctx"))
}

func c18Check(c *eng.Case) *eng.Outcome {
	o := &eng.Outcome{}
	var v []int
	for _, s := range strings.Split(c.Get("v"), ",") {
		var x int
		fmt.Sscan(s, &x)
		v = append(v, x)
	}
	if len(v) != len(c18Features) {
		o.Skipped = "stale replay"
		return o
	}
	c.HTML = c18Doc(v, c.Get("ctx"))
	a := analyse(c, o)
	if a == nil {
		return o
	}
	// the table under test: the first table that is not the layout wrapper
	var tbl *html.Node
	for _, t := range ora.Elements(a.Doc, "table") {
		if ora.AttrV(t, "id") != "outer" {
			tbl = t
			break
		}
	}
	if tbl == nil {
		o.Skipped = "no table in parsed input"
		return o
	}
	if outer := ora.Ancestor(tbl, "table"); outer != nil {
		if w, _ := c18Ref(outer, true); w == "data" {
			o.Class = "wrapper-table-is-data"
			return o // the enclosing table is itself preserved whole: the inner one cannot be observed
		}
	}
	want, rule := c18Ref(tbl, true)
	want2, rule2 := c18Ref(tbl, false)
	hdr := c18Features[6].vals[v[6]]
	if want != want2 {
		o.Notes = append(o.Notes, fmt.Sprintf("verdict depends on whether th counts as a cell (rules %d/%d): outside the statement", rule, rule2))
		o.Class = "ambiguous-th"
		return o
	}
	if hdr == "caption-empty" || hdr == "th-empty" || hdr == "th-empty-then-th" {
		// the statement does not say whether an empty caption/th counts; observe only
		o.Class = "observe-empty-header"
	}
	// observation: words of the table's own cells
	var ownWords []string
	ora.Walk(tbl, func(n *html.Node) bool {
		if n != tbl && n.Type == html.ElementNode && n.Data == "table" {
			return false
		}
		if n.Type == html.TextNode {
			ownWords = append(ownWords, ora.Words(n.Data)...)
		}
		return true
	})
	if len(ownWords) == 0 {
		o.Skipped = "table without words"
		return o
	}
	// host retained?
	textSet := ora.Set(a.TextWords)
	// a data table is retained iff the nearest preceding text is (C08): without that the
	// rendering path cannot be observed
	prevWord := ""
	for _, n := range a.SrcNodes {
		if n == nil {
			continue
		}
		inside := false
		for p := n.Parent; p != nil; p = p.Parent {
			if p == tbl {
				inside = true
			}
		}
		if inside {
			break
		}
		if ws := ora.Words(n.Data); len(ws) > 0 {
			prevWord = ws[len(ws)-1]
		}
	}
	if prevWord == "" || !textSet[prevWord] {
		o.Skipped = "text before the table not retained"
		return o
	}
	first, last := ownWords[0], ownWords[len(ownWords)-1]
	if first == "zprobe" && len(ownWords) > 1 {
		first = ownWords[1]
	}
	inTable := func(w string) bool {
		for _, ow := range outWordNodes(a.Res.Node) {
			if ow.w == w {
				return ora.Ancestor(ow.node, "table") != nil
			}
		}
		return false
	}
	// data <=> rendered by the whole-table path: the probe control is kept, inside a <table>,
	// together with the first and last cell
	got := "layout"
	probe := inTable("zprobe")
	if probe && inTable(first) && inTable(last) {
		got = "data"
	} else if probe || strings.Contains(a.Res.Text, "zprobe") {
		got = "mixed"
	}
	if o.Class == "observe-empty-header" {
		if got != want {
			o.Notes = append(o.Notes, "empty "+hdr+": library says "+got+", literal reading of the statement says "+want)
		}
		return o
	}
	if got != want {
		o.V(fmt.Sprintf("class:%s-want-%s:rule%d", got, want, rule), "table observed as %s, decision list says %s (rule %d); %s", got, want, rule, c.Get("doc"))
	}
	// non-trivial: an earlier and a later rule with different verdicts both apply, or a boundary shape
	shape := c18Features[5].vals[v[5]]
	dev := 0
	for _, x := range v {
		if x != 0 {
			dev++
		}
	}
	o.Nontrivial = dev >= 2 || shape == "4+4+2" || shape == "4+4+3" || shape == "19x2" || shape == "20x2" || shape == "2x4" || shape == "2x5"
	o.Class = fmt.Sprintf("%s by rule %d", want, rule)
	return o
}

func init() {
	eng.Register(&eng.Prop{
		ID:        "C18",
		DesignRef: "§5 C18",
		Rule: "feature vectors editable{2} x table role{8} x descendant role{4} x datatable{3} x nested{4: none, plain, nested table carrying a landmark role} x shape{14: 3x4,1x2,2x1,2x2,2x4,2x5,4+4+2,4+4+3,19x2,20x2, 20 one-cell rows + 4 two-cell rows, 19+5, ragged 1+2+2, 1+1+5} x header{15} x cell feature{6} x summary{2} x embedded{5} (9.7e6 vectors); " +
			"quick: every vector with <= 3 features off the default in body and <= 2 in {div, li, blockquote, layout-table cell, after an earlier table that is data by a cell attribute / summary / 5 columns / 20 rows / th, after an earlier layout table}; thorough: all vectors in body and <= 3 deviations in the other contexts. Each vector is rendered as a table after two content paragraphs. " +
			"Oracle: the statement's 14-rule decision list evaluated on the parsed table vs. observation through the public API (a form-control probe in the first cell survives, inside a <table> together with the first and last cell words, iff the table was preserved as data). Vectors whose verdict depends on whether <th> counts as a cell, and empty caption/th, are observe-only. " +
			"Non-trivial = >= 2 rule-relevant features set, or a threshold shape.",
		Enumerate: c18Enumerate,
		Check:     c18Check,
		Bounds: func(tier string) map[string]any {
			if tier == "thorough" {
				return map[string]any{"decorated_variants": decorBound(tier), "body": "all vectors", "other_contexts_max_deviations": 3}
			}
			return map[string]any{"decorated_variants": decorBound(tier), "body_max_deviations": 3, "other_contexts_max_deviations": 2}
		},
		Assumptions: []string{"no colspan/rowspan", "documents are below the 500-word threshold, so role-based pruning of the table itself does not apply"},
	})
}
