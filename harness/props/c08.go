package props

import (
	"fmt"
	"strings"

	"golang.org/x/net/html"
	"verif/harness/eng"
	"verif/harness/ora"
)

// C08 — media and tables are retained exactly when they follow retained text.

var c08Atoms = append(append([]ora.Atom{}, ora.StdAtoms...),
	ora.Atom{Name: "IMGd1", Gen: func(t *ora.Tok) string {
		return "<div><img src=\"http://example.com/img/" + t.U() + ".jpg\" width=\"400\" height=\"300\"></div>"
	}},
	ora.Atom{Name: "IMGd3", Gen: func(t *ora.Tok) string {
		return "<div><div><div><img src=\"http://example.com/img/" + t.U() + ".jpg\" width=\"400\" height=\"300\"></div></div></div>"
	}},
	ora.Atom{Name: "FIGd2", Gen: func(t *ora.Tok) string {
		return "<div><div><figure><img src=\"http://example.com/img/" + t.U() + ".jpg\" width=\"400\" height=\"300\"><figcaption>" + t.W(4) + "</figcaption></figure></div></div>"
	}},
	ora.Atom{Name: "VIDd1", Gen: func(t *ora.Tok) string {
		return "<div><video src=\"http://example.com/v/" + t.U() + ".mp4\" width=\"400\" height=\"300\"></video></div>"
	}},
	ora.Atom{Name: "TXTT", Gen: func(t *ora.Tok) string {
		return "<div>" + t.W(19) + " <table><tr><th>" + t.W(1) + "</th><th>" + t.W(1) + "</th></tr><tr><td>" + t.W(1) + "</td><td>" + t.W(1) + "</td></tr></table></div>"
	}},
	ora.Atom{Name: "TXTI", Gen: func(t *ora.Tok) string {
		return "<div>" + t.W(3) + " <img src=\"http://example.com/img/" + t.U() + ".jpg\" width=\"400\" height=\"300\"> " + t.W(18) + "</div>"
	}},
	ora.Atom{Name: "IMGjs", Gen: func(t *ora.Tok) string {
		return "<a href=\"javascript:enlarge()\"><img src=\"http://example.com/img/" + t.U() + ".jpg\" width=\"400\" height=\"300\"></a>"
	}},
	// media alone (apart from pretty-printing white space) in a wrapper whose class says "author"
	ora.Atom{Name: "IMGauth", Gen: func(t *ora.Tok) string {
		return "<div class=\"author-avatar\">\n  <img src=\"http://example.com/img/" + t.U() + ".jpg\" width=\"400\" height=\"300\">\n</div>"
	}},
	ora.Atom{Name: "VIDrel", Gen: func(t *ora.Tok) string {
		return "<a rel=\"author\" href=\"http://example.com/a\">\n  <video src=\"http://example.com/v/" + t.U() + ".mp4\" width=\"400\" height=\"300\"></video>\n</a>"
	}},
	ora.Atom{Name: "YTobj", Gen: func(t *ora.Tok) string {
		return "<object type=\"application/x-shockwave-flash\" data=\"http://www.youtube.com/v/" + t.U() + "\" width=\"400\" height=\"300\"></object>"
	}},
	ora.Atom{Name: "IMGsm", Gen: func(t *ora.Tok) string {
		return "<img src=\"http://example.com/img/" + t.U() + ".jpg\" width=\"30\" height=\"20\">"
	}},
	ora.Atom{Name: "IMGnd", Gen: func(t *ora.Tok) string {
		return "<img src=\"http://example.com/img/" + t.U() + ".jpg\">"
	}},
)

var (
	c08Main   = []string{"Pc", "Ps", "Pb", "IMG", "FIG", "VID", "YT", "TBLd", "UL3"}
	c08Nested = []string{"Pc", "Pb", "IMGd1", "IMGd3", "FIGd2", "VIDd1", "IMGsm", "IMGnd", "H", "TXTT", "TXTI", "IMGjs", "YTobj", "IMGauth", "VIDrel"}
)

func c08Enumerate(tier string, emit func(*eng.Case)) {
	emit = withDecor(decorEvery(tier), emit)
	l1, l2 := 5, 4
	if tier == "thorough" {
		l1, l2 = 7, 5
	}
	for si, set := range [][]string{c08Main, c08Nested} {
		alpha := ora.AtomIndex(c08Atoms, set...)
		l := l1
		if si == 1 {
			l = l2
		}
		seqEnum(alpha, l, func(seq []int) {
			d := &ora.DocModel{Skel: "seq", Top: seq}
			emit(caseFromModel("seq", d, c08Atoms, ""))
		})
	}
}

type c08Medium struct {
	kind  string
	node  *html.Node
	mark  string // URL marker or first cell word
	prevW string // nearest preceding visible word outside media ("" if none)
}

func isDataTableSrc(n *html.Node) bool {
	return len(ora.Elements(n, "th", "caption")) > 0
}

// c08Media lists the media elements of the parsed input with their preceding text word.
func c08Media(doc *html.Node) []c08Medium {
	var out []c08Medium
	lastWord := ""
	var walk func(n *html.Node)
	walk = func(n *html.Node) {
		switch n.Type {
		case html.TextNode:
			ws := ora.Words(n.Data)
			if len(ws) > 0 {
				lastWord = ws[len(ws)-1]
			}
			return
		case html.ElementNode:
			if n.Data == "head" || n.Data == "script" || n.Data == "style" || ora.HiddenKind(n) != "" {
				return
			}
			switch n.Data {
			case "img":
				out = append(out, c08Medium{"IMG", n, marker(ora.AttrV(n, "src")), lastWord})
				return
			case "figure":
				im := ora.Elements(n, "img")
				if len(im) > 0 {
					out = append(out, c08Medium{"FIG", n, marker(ora.AttrV(im[0], "src")), lastWord})
				}
				return
			case "video":
				out = append(out, c08Medium{"VID", n, marker(ora.AttrV(n, "src")), lastWord})
				return
			case "iframe":
				out = append(out, c08Medium{"YT", n, marker(ora.AttrV(n, "src")), lastWord})
				return
			case "object":
				if d := ora.AttrV(n, "data"); strings.Contains(d, "youtube.com/") {
					out = append(out, c08Medium{"YT", n, marker(d), lastWord})
				}
				return
			case "table":
				if isDataTableSrc(n) {
					ws := ora.Words(ora.AllText(n))
					m := ""
					if len(ws) > 0 {
						m = ws[0]
					}
					out = append(out, c08Medium{"TBLd", n, m, lastWord})
					return
				}
			}
		case html.DocumentNode:
		default:
			return
		}
		for c := n.FirstChild; c != nil; c = c.NextSibling {
			walk(c)
		}
	}
	walk(doc)
	return out
}

// marker extracts the unique u<N>z marker from a URL.
func marker(u string) string {
	i := strings.LastIndex(u, "/")
	s := u[i+1:]
	if j := strings.IndexAny(s, ".?-"); j >= 0 {
		s = s[:j]
	}
	return s
}

func c08Check(c *eng.Case) *eng.Outcome {
	o := &eng.Outcome{}
	a := analyse(c, o)
	if a == nil {
		return o
	}
	outHTML := ora.Render(a.Res.Node)
	textSet := ora.Set(a.TextWords)
	htmlSet := ora.Set(a.HTMLWords)
	media := c08Media(a.Doc)
	keptN, dropN := 0, 0
	var promoted []c08Medium
	for _, m := range media {
		if m.mark == "" {
			continue
		}
		var kept bool
		if m.kind == "TBLd" {
			kept = htmlSet[m.mark]
		} else {
			kept = strings.Contains(outHTML, m.mark)
		}
		prevKept := m.prevW != "" && textSet[m.prevW]
		if kept {
			keptN++
		} else {
			dropN++
		}
		if prevKept && !kept {
			o.V("dropped-after-kept-text:"+m.kind+":"+tagPath(m.node), "%s %s follows retained text (%q) but is absent from the output; doc %s", m.kind, m.mark, m.prevW, c.Get("doc"))
		}
		if kept && !prevKept {
			promoted = append(promoted, m)
		}
	}
	if len(promoted) > 1 {
		o.V("multi-promoted", "%d media kept although their preceding text is not retained (at most one lead image allowed); doc %s", len(promoted), c.Get("doc"))
	}
	for _, m := range promoted {
		if m.kind != "IMG" && m.kind != "FIG" {
			o.V("promoted-non-image:"+m.kind, "%s %s kept although the preceding text (%q) is not retained; doc %s", m.kind, m.mark, m.prevW, c.Get("doc"))
		}
	}
	o.Nontrivial = keptN >= 1 && dropN >= 1
	o.Class = fmt.Sprintf("kept=%d dropped=%d promoted=%d", min(keptN, 3), min(dropN, 3), len(promoted))
	return o
}

func init() {
	eng.Register(&eng.Prop{
		ID:        "C08",
		DesignRef: "§5 C08",
		Rule: "all sequences of body children of length <= 5 (quick) / <= 7 (thorough) over {Pc,Ps,Pb,IMG,FIG,VID,YT,TBLd,UL3}, and of length <= 4 / <= 5 over the nested/odd-media alphabet {Pc,Pb,IMGd1,IMGd3,FIGd2,VIDd1,IMGsm,IMGnd,H, bare text followed by a table / an image inside one div, an image inside a javascript: anchor, a YouTube <object>, an image alone in a pretty-printed author-avatar wrapper, a video alone in a rel=author anchor}. " +
			"Oracle: for each medium m of the parsed input with nearest preceding visible word p(m) outside media: kept(p) => kept(m); the media kept without kept(p) are at most one and are images/figures. Non-trivial = >= 1 medium kept and >= 1 dropped.",
		Enumerate: c08Enumerate,
		Check:     c08Check,
		Bounds: func(tier string) map[string]any {
			if tier == "thorough" {
				return map[string]any{"decorated_variants": decorBound(tier), "max_len_main": 7, "max_len_nested": 5}
			}
			return map[string]any{"decorated_variants": decorBound(tier), "max_len_main": 5, "max_len_nested": 4}
		},
	})
}
