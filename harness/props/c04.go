package props

import (
	"fmt"
	"regexp"
	"strings"

	distiller "github.com/markusmobius/go-domdistiller"

	"golang.org/x/net/html"
	"verif/harness/eng"
	"verif/harness/ora"
)

// C04 — non-rendered and non-reading content never leaks into the output.

type carrier struct {
	name  string
	class string // A (never), B (never except inside retained data table / figure), C (control: visible), O (observe-only)
	gen   func(s string) string
}

func spanStyle(st string) func(string) string {
	return func(s string) string { return "<span style=\"" + st + "\">" + s + "</span>" }
}

var c04Carriers = []carrier{
	{"script", "A", func(s string) string { return "<script>var " + s + " = 1;</script>" }},
	{"style", "A", func(s string) string { return "<style>." + s + "{color:red}</style>" }},
	{"comment", "A", func(s string) string { return "<!-- " + s + " -->" }},
	{"style-displayed", "A", func(s string) string { return "<style style=\"display:block\">." + s + "{color:red}</style>" }},
	{"script-displayed", "A", func(s string) string { return "<script style=\"display:inline\">var " + s + " = 1;</script>" }},
	{"hidden", "A", func(s string) string { return "<span hidden>" + s + "</span>" }},
	{"dn", "A", spanStyle("display:none")},
	{"dn-sp", "A", spanStyle("display: none;")},
	{"dn-upper", "A", spanStyle("DISPLAY:NONE")},
	{"dn-important", "A", spanStyle("display:none !important")},
	{"dn-multi", "A", spanStyle("color:red; display:none; margin:0")},
	{"vis-hidden", "A", spanStyle("visibility:hidden")},
	{"vis-collapse", "A", spanStyle("visibility: collapse")},
	{"aria", "A", func(s string) string { return "<span aria-hidden=\"true\">" + s + "</span>" }},
	{"div-hidden", "A", func(s string) string { return "<div hidden><p>" + s + " " + s + "b</p></div>" }},
	{"p-dn", "A", func(s string) string { return "<p style=\"display:none\">" + s + "</p>" }},
	{"hidden+style", "A", func(s string) string { return "<span style=\"color:red\" hidden>" + s + "</span>" }},
	{"aria+style", "A", func(s string) string { return "<span style=\"color:red\" aria-hidden=\"true\">" + s + "</span>" }},
	{"p-hidden+style", "A", func(s string) string { return "<p style=\"color:red\" hidden>" + s + "</p>" }},
	{"hidden-figcaption", "A", func(s string) string { return "<div hidden><figcaption>" + s + "</figcaption></div>" }},
	{"hidden-with-link", "A", func(s string) string {
		return "<span style=\"display:none\">" + s + " <a href=\"http://example.com/l/x\">" + s + "b</a></span>"
	}},
	{"font-hidden", "A", func(s string) string { return "<font hidden>" + s + "</font>" }},
	{"font-dn", "A", func(s string) string { return "<font color=\"red\" style=\"display:none\">" + s + "</font>" }},
	{"figure-hidden", "A", func(s string) string {
		return "<figure hidden><img src=\"http://example.com/img/hf.jpg\" width=\"400\" height=\"300\"><figcaption>" + s + "</figcaption></figure>"
	}},
	{"figure-dn", "A", func(s string) string {
		return "<figure style=\"display:none\"><img src=\"http://example.com/img/hf2.jpg\" width=\"400\" height=\"300\"><figcaption>" + s + " <a href=\"http://example.com/l/y\">" + s + "b</a></figcaption></figure>"
	}},
	{"tweet-hidden", "A", func(s string) string {
		return "<blockquote class=\"twitter-tweet\" aria-hidden=\"true\"><p>" + s + "</p><a href=\"https://twitter.com/x/status/99\">" + s + "b</a></blockquote>"
	}},
	{"form", "B", func(s string) string { return "<form action=\"/x\">" + s + "</form>" }},
	{"input", "B", func(s string) string { return "<input type=\"text\" value=\"" + s + "\">" }},
	{"button", "B", func(s string) string { return "<button>" + s + "</button>" }},
	{"select", "B", func(s string) string { return "<select><option>" + s + "</option></select>" }},
	{"textarea", "B", func(s string) string { return "<textarea>" + s + "</textarea>" }},
	{"noscript", "B", func(s string) string { return "<noscript>" + s + "</noscript>" }},
	{"noscript-block", "B", func(s string) string { return "<noscript><div><p>" + s + "</p></div></noscript>" }},
	{"svg", "B", func(s string) string { return "<svg width=\"10\" height=\"10\"><text>" + s + "</text></svg>" }},
	{"object", "B", func(s string) string { return "<object data=\"http://example.com/x.bin\">" + s + "</object>" }},
	{"applet", "B", func(s string) string { return "<applet code=\"x\">" + s + "</applet>" }},
	{"iframe", "B", func(s string) string { return "<iframe src=\"http://frames.example.net/f\">" + s + "</iframe>" }},
	{"ctl-aria-false", "C", func(s string) string { return "<span aria-hidden=\"false\">" + s + "</span>" }},
	{"ctl-display-block", "C", spanStyle("display:block")},
	{"ctl-style", "C", spanStyle("color:red")},
	{"ctl-p-style", "C", func(s string) string { return "<p style=\"color:red\">" + s + "</p>" }},
	{"obs-dn-space-colon", "O", spanStyle("display : none")},
	{"obs-dn-css-comment", "O", spanStyle("display:/*x*/none")},
	// aria-hidden text under the class for which the library shows aria-hidden *images* (Wikimedia math)
	{"aria-fallback-class", "A", func(s string) string {
		return "<span class=\"mwe-math-fallback-image-inline\" aria-hidden=\"true\">" + s + "</span>"
	}},
	// hidden formatting elements inside a javascript: anchor (which the converter flattens to text)
	{"js-anchor-hidden-span", "A", func(s string) string {
		return "<a href=\"javascript:void(0)\">jsvisible <span hidden>" + s + "</span></a>"
	}},
	{"js-anchor-dn-b", "A", func(s string) string {
		return "<a href=\"javascript:void(0)\"><b style=\"display:none\">" + s + "</b> jsvisible</a>"
	}},
	{"aria-fallback-div", "A", func(s string) string {
		return "<div class=\"fallback-image\" aria-hidden=\"true\"><p>" + s + "</p></div>"
	}},
}

var c04Slots = []string{"top", "between", "inpara", "li", "tdl", "tdd", "cap", "capl", "fig", "tw", "head", "capo", "pic", "vid"}

// c04Doc renders the fixed host skeleton with the given carriers placed in slots.
func c04Doc(place [][2]int) string {
	t := &ora.Tok{}
	fill := map[string]string{}
	for i, pl := range place {
		sec := fmt.Sprintf("s%dx", i+1)
		fill[c04Slots[pl[1]]] += " " + c04Carriers[pl[0]].gen(sec) + " "
	}
	pc := func() string { return "<p>" + t.W(21) + "</p>" }
	img := func() string {
		return "<img src=\"http://example.com/img/" + t.U() + ".jpg\" width=\"400\" height=\"300\">"
	}
	var sb strings.Builder
	sb.WriteString("<html><head><title>" + ora.DefaultTitle + "</title>" + fill["head"] + "</head><body>")
	sb.WriteString(fill["top"])
	sb.WriteString("<div class=\"main\">")
	sb.WriteString(pc())
	sb.WriteString(fill["between"])
	sb.WriteString("<p>" + t.W(11) + fill["inpara"] + t.W(10) + "</p>")
	sb.WriteString("<ul><li>" + t.W(9) + fill["li"] + t.W(3) + "</li><li>" + t.W(10) + "</li></ul>")
	sb.WriteString("<table><tr><td><p>" + t.W(20) + fill["tdl"] + "</p></td></tr></table>")
	sb.WriteString(pc())
	sb.WriteString("<table><tr><th>" + t.W(1) + "</th><th>" + t.W(1) + "</th></tr><tr><td>" + t.W(1) + fill["tdd"] + "</td><td>" + t.W(1) + "</td></tr><tr><td>" + t.W(1) + "</td><td>" + t.W(1) + "</td></tr></table>")
	sb.WriteString(pc())
	sb.WriteString("<figure>" + img() + "<figcaption>" + t.W(4) + fill["cap"] + "</figcaption></figure>")
	sb.WriteString(pc())
	sb.WriteString("<figure>" + img() + "<figcaption>" + t.W(3) + " <a href=\"http://example.com/l/" + t.U() + "\">" + t.W(2) + "</a>" + fill["capl"] + "</figcaption></figure>")
	sb.WriteString(pc())
	sb.WriteString("<figure>" + img() + fill["fig"] + "<figcaption>" + t.W(4) + "</figcaption></figure>")
	sb.WriteString(pc())
	// a figure whose caption holds nothing but the carriers, a picture and a video with carriers inside
	sb.WriteString("<figure>" + img() + "<figcaption>" + strings.TrimSpace(fill["capo"]) + "</figcaption></figure>")
	sb.WriteString(pc())
	sb.WriteString("<picture>" + strings.TrimSpace(fill["pic"]) + "<source srcset=\"http://example.com/img/" + t.U() + ".webp 1x\">" + img() + "</picture>")
	sb.WriteString(pc())
	sb.WriteString("<video src=\"http://example.com/v/" + t.U() + ".mp4\" width=\"400\" height=\"300\">" + strings.TrimSpace(fill["vid"]) + "</video>")
	sb.WriteString(pc())
	sb.WriteString("<blockquote class=\"twitter-tweet\"><p>" + t.W(6) + fill["tw"] + "</p><a href=\"https://twitter.com/someone/status/1234567\">" + t.W(2) + "</a></blockquote>")
	sb.WriteString(pc())
	sb.WriteString("</div></body></html>")
	return sb.String()
}

func c04Enumerate(tier string, emit func(*eng.Case)) {
	emit = withDecor(decorEvery(tier), emit)
	var opts [][2]int
	for ci := range c04Carriers {
		for si := range c04Slots {
			opts = append(opts, [2]int{ci, si})
		}
	}
	// quick: all multisets of <= 2 placements. thorough: additionally every triple that shares one
	// slot, and every triple over the core carriers (one per mechanism) in any slots. (All triples
	// of all 658 placements would be 4.7e7 documents; carriers interact through a shared host
	// element or through the state of the walk, which pairs and these triples cover.)
	core := map[string]bool{"script": true, "style": true, "comment": true, "hidden": true, "dn": true, "aria": true, "div-hidden": true, "button": true, "noscript": true, "iframe": true, "svg": true, "ctl-style": true}
	coreSeen := 0
	for _, c := range c04Carriers {
		if core[c.name] {
			coreSeen++
		}
	}
	var rec func(start int, cur [][2]int)
	rec = func(start int, cur [][2]int) {
		if len(cur) > 0 {
			var d []string
			for _, pl := range cur {
				d = append(d, c04Carriers[pl[0]].name+"@"+c04Slots[pl[1]])
			}
			emit(&eng.Case{Kind: "leak", HTML: c04Doc(cur), P: map[string]string{"doc": strings.Join(d, " + ")}})
			if len(cur) == 1 {
				emit(&eng.Case{Kind: "leak", HTML: c04Doc(cur), P: map[string]string{"entry": "reader", "doc": strings.Join(d, " + ") + " via ApplyForReader"}})
			}
		}
		if len(cur) == 3 || (len(cur) == 2 && tier != "thorough") {
			return
		}
		for i := start; i < len(opts); i++ {
			if len(cur) == 2 {
				sameSlot := cur[0][1] == cur[1][1] && cur[1][1] == opts[i][1]
				allCore := coreSeen >= 6 && core[c04Carriers[cur[0][0]].name] && core[c04Carriers[cur[1][0]].name] && core[c04Carriers[opts[i][0]].name]
				if !sameSlot && !allCore {
					continue
				}
			}
			rec(i, append(cur[:len(cur):len(cur)], opts[i]))
		}
	}
	rec(0, nil)
}

var rxSecret = regexp.MustCompile(`s\d+xb?`)

var c04BTags = map[string]bool{"form": true, "input": true, "button": true, "select": true, "option": true, "textarea": true,
	"noscript": true, "svg": true, "object": true, "embed": true, "applet": true, "iframe": true}

type secretInfo struct {
	tok     string
	class   string // A, B, V (visible)
	holder  string // description of the carrier element
	where   string // nearest host
	excepts *html.Node
}

func hostOf(n *html.Node) string {
	for p := n; p != nil; p = p.Parent {
		if p.Type != html.ElementNode {
			continue
		}
		switch p.Data {
		case "figcaption":
			if len(ora.Elements(p, "a")) > 0 {
				return "figcaption-with-link"
			}
			return "figcaption"
		case "figure":
			return "figure"
		case "td", "th":
			if t := ora.Ancestor(p, "table"); t != nil && isDataTableSrc(t) {
				return "data-table-cell"
			}
			return "layout-table-cell"
		case "li":
			return "li"
		case "blockquote":
			if ora.HasClass(p, "twitter-tweet") {
				return "twitter-embed"
			}
		case "head":
			return "head"
		case "p":
			return "p"
		}
	}
	return "top"
}

func classifySecret(n *html.Node) (class, holder string, exc *html.Node) {
	if n.Type == html.CommentNode {
		return "A", "comment", nil
	}
	var b *html.Node
	start := n
	if n.Type != html.ElementNode {
		start = n.Parent
	}
	for p := start; p != nil; p = p.Parent {
		if p.Type != html.ElementNode {
			continue
		}
		if p.Data == "script" || p.Data == "style" || p.Data == "head" || p.Data == "template" {
			return "A", p.Data, nil
		}
		if k := ora.HiddenKind(p); k != "" {
			st := ora.AttrV(p, "style")
			if st != "" {
				k += "(" + st + ")"
			}
			return "A", p.Data + "[" + k + "]", nil
		}
		if c04BTags[p.Data] && b == nil {
			b = p
		}
	}
	if b != nil {
		for p := b.Parent; p != nil; p = p.Parent {
			if p.Type == html.ElementNode && (p.Data == "figure" || (p.Data == "table" && isDataTableSrc(p))) {
				exc = p
				break
			}
		}
		return "B", b.Data, exc
	}
	return "V", "", nil
}

func c04Check(c *eng.Case) *eng.Outcome {
	o := &eng.Outcome{}
	var a *An
	if c.Get("entry") == "reader" {
		// the bytes go through ApplyForReader; the reference reading of the page is still ours
		var res *distiller.Result
		var err error
		pi := eng.Protect(func() { res, err = distiller.ApplyForReader(strings.NewReader(ora.DecoratedHTML(c)), nil) })
		if pi != nil {
			o.Skipped = pi.Sig()
			return o
		}
		if err != nil || res == nil || res.Node == nil {
			o.Skipped = "error"
			return o
		}
		a = analyseRes(ora.Parse(ora.DecoratedHTML(c)), res)
	} else {
		a = analyse(c, o)
	}
	if a == nil {
		return o
	}
	// secrets of the parsed input
	secrets := map[string]*secretInfo{}
	note := func(tok string, n *html.Node) {
		if _, ok := secrets[tok]; ok {
			return
		}
		cl, holder, exc := classifySecret(n)
		secrets[tok] = &secretInfo{tok: tok, class: cl, holder: holder, where: hostOf(n), excepts: exc}
	}
	ora.Walk(a.Doc, func(n *html.Node) bool {
		switch n.Type {
		case html.TextNode, html.CommentNode:
			for _, tok := range rxSecret.FindAllString(n.Data, -1) {
				note(tok, n)
			}
		case html.ElementNode:
			for _, at := range n.Attr {
				if at.Key == "style" || at.Key == "class" {
					continue
				}
				for _, tok := range rxSecret.FindAllString(at.Val, -1) {
					note(tok, n)
				}
			}
		}
		return true
	})
	// output scan
	inText := map[string]bool{}
	for _, tok := range rxSecret.FindAllString(a.Res.Text, -1) {
		inText[tok] = true
	}
	inHTML := map[string]bool{}
	ora.Walk(a.Res.Node, func(n *html.Node) bool {
		switch n.Type {
		case html.TextNode, html.CommentNode:
			for _, tok := range rxSecret.FindAllString(n.Data, -1) {
				inHTML[tok] = true
			}
		case html.ElementNode:
			if ora.IsPlaceholder(n) {
				return false
			}
			for _, at := range n.Attr {
				for _, tok := range rxSecret.FindAllString(at.Val, -1) {
					inHTML[tok] = true
				}
			}
		}
		return true
	})
	outHTML := ""
	retained := func(host *html.Node) bool {
		if host == nil {
			return false
		}
		if outHTML == "" {
			outHTML = ora.Render(a.Res.Node)
		}
		if host.Data == "figure" {
			if im := ora.Elements(host, "img"); len(im) > 0 {
				return strings.Contains(outHTML, marker(ora.AttrV(im[0], "src")))
			}
			return false
		}
		for _, w := range ora.Words(ora.AllText(host)) {
			if !rxSecret.MatchString(w) {
				return ora.Set(a.HTMLWords)[w]
			}
		}
		return false
	}
	leaks := 0
	for _, s := range secrets {
		for _, view := range []string{"text", "html"} {
			present := inText[s.tok]
			if view == "html" {
				present = inHTML[s.tok]
			}
			switch s.class {
			case "A":
				if present {
					leaks++
					if strings.HasPrefix(carrierOf(c, s.tok), "obs-") {
						o.Notes = append(o.Notes, "observe-only CSS spelling leaks: "+s.holder)
						continue
					}
					o.V(fmt.Sprintf("leak:%s:%s:in-%s", view, s.holder, s.where), "non-rendered content %q (%s, in %s) appears in the %s view; doc: %s", s.tok, s.holder, s.where, view, c.Get("doc"))
				}
			case "B":
				if present && !retained(s.excepts) {
					leaks++
					o.V(fmt.Sprintf("leak:%s:%s:in-%s", view, s.holder, s.where), "non-reading content %q (%s, in %s) appears in the %s view; doc: %s", s.tok, s.holder, s.where, view, c.Get("doc"))
				}
			case "V":
				cn := carrierOf(c, s.tok)
				if strings.HasPrefix(cn, "obs-") && present && view == "text" {
					o.Notes = append(o.Notes, "observe-only CSS spelling is treated as visible: "+cn)
				}
				if strings.HasPrefix(cn, "ctl-") && view == "text" && s.where == "p" && !present {
					o.Notes = append(o.Notes, "negative control "+cn+" inside a content paragraph is absent from Text")
				}
			}
		}
	}
	nA := 0
	for _, s := range secrets {
		if s.class != "V" {
			nA++
		}
	}
	o.Nontrivial = nA >= 1 && len(a.TextWords) >= 100
	o.Class = fmt.Sprintf("secrets=%d leaks=%d", nA, min(leaks, 3))
	return o
}

// carrierOf maps a secret token back to the carrier name of the case description (used only to
// tell observe-only and control carriers apart; classification itself is from the parsed tree).
func carrierOf(c *eng.Case, tok string) string {
	var i int
	fmt.Sscanf(strings.TrimSuffix(tok, "b"), "s%dx", &i)
	parts := strings.Split(c.Get("doc"), " + ")
	if i >= 1 && i <= len(parts) {
		return strings.SplitN(parts[i-1], "@", 2)[0]
	}
	return ""
}

func init() {
	eng.Register(&eng.Prop{
		ID:        "C04",
		DesignRef: "§5 C04",
		Rule: "fixed host skeleton (article with paragraph, list, layout table, data table, three figures, twitter embed) with 14 slots {top, between paragraphs, inside paragraph, li, layout cell, data cell, caption, caption with link, directly in figure, twitter embed, head, a caption holding only the carriers, inside picture, inside video}; " +
			"every multiset of <= 2 (carrier, slot) placements (thorough: also every triple within one slot and every triple of the 12 core carriers in any slots) over 47 carriers (30 hidden/non-rendered, among them hidden formatting elements inside a javascript: anchor and aria-hidden text under a fallback-image class, incl. hidden elements that also carry a style shared with a visible control, 10 non-reading, 4 visible controls, 2 observe-only CSS spellings), each holding a unique secret token; every single placement is also distilled from bytes through ApplyForReader. " +
			"Oracle: secrets whose holder (judged on the parsed tree) is script/style/head/comment/hidden never occur in Text nor in result.Node outside embed placeholders; secrets in form controls/noscript/svg/object/applet/unrecognised iframe never occur unless nested in a retained data table or figure. Non-trivial = >= 1 secret and >= 100 words retained.",
		Enumerate: c04Enumerate,
		Check:     c04Check,
		Bounds: func(tier string) map[string]any {
			k := "2"
			if tier == "thorough" {
				k = "2, plus triples within one slot and triples of the 12 core carriers"
			}
			return map[string]any{"decorated_variants": decorBound(tier), "max_placements": k, "carriers": len(c04Carriers), "slots": len(c04Slots)}
		},
		Assumptions: []string{"'display : none' (space before the colon) and CSS comments inside the value are observe-only"},
	})
}
