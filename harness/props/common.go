package props

import (
	"fmt"
	"strings"

	distiller "github.com/markusmobius/go-domdistiller"
	"golang.org/x/net/html"
	"verif/harness/eng"
	"verif/harness/ora"
)

// An is the shared analysis of one executed document.
type An struct {
	Doc       *html.Node
	Res       *distiller.Result
	SrcNodes  []*html.Node   // visible text nodes of the parsed input, in order
	SrcWords  []string       // their words, in order
	SrcPos    map[string]int // word -> position (first occurrence)
	SrcNodeOf map[string]*html.Node
	SrcDup    map[string]bool // words occurring more than once in the visible source
	AllWords  map[string]bool // every word of every text node / comment of the source (visible or not)
	TextWords []string
	HTMLWords []string
}

// analyse runs the case and prepares the views. It returns nil and fills o.Skipped when the
// library panicked or returned an error.
func analyse(c *eng.Case, o *eng.Outcome) *An {
	doc, res, err, pi := ora.Run(c)
	if pi != nil {
		o.Skipped = pi.Sig()
		return nil
	}
	if err != nil {
		o.Skipped = "error: " + err.Error()
		return nil
	}
	if res == nil || res.Node == nil {
		o.Skipped = "nil result"
		return nil
	}
	return analyseRes(doc, res)
}

func analyseRes(doc *html.Node, res *distiller.Result) *An {
	a := &An{Doc: doc, Res: res, SrcPos: map[string]int{}, SrcNodeOf: map[string]*html.Node{}, SrcDup: map[string]bool{}, AllWords: map[string]bool{}}
	a.SrcNodes = ora.SrcVisibleText(doc)
	for _, n := range a.SrcNodes {
		for _, w := range ora.Words(n.Data) {
			if _, dup := a.SrcPos[w]; dup {
				a.SrcDup[w] = true
				continue
			}
			a.SrcPos[w] = len(a.SrcWords)
			a.SrcNodeOf[w] = n
			a.SrcWords = append(a.SrcWords, w)
		}
	}
	ora.Walk(doc, func(n *html.Node) bool {
		if n.Type == html.TextNode || n.Type == html.CommentNode {
			for _, w := range ora.Words(n.Data) {
				a.AllWords[w] = true
			}
		}
		return true
	})
	a.TextWords = ora.Words(res.Text)
	a.HTMLWords = ora.OutVisibleWords(res.Node)
	return a
}

// tagPath gives the element path of a node, e.g. "body>div>p>a". Attributes that select a
// code path in the library are appended in brackets.
func tagPath(n *html.Node) string {
	var parts []string
	for p := n; p != nil; p = p.Parent {
		if p.Type != html.ElementNode {
			continue
		}
		if p.Data == "html" {
			break
		}
		s := p.Data
		if p.Data == "a" {
			if h := ora.AttrV(p, "href"); strings.HasPrefix(h, "javascript:") {
				s += "[js]"
			}
		}
		if k := ora.HiddenKind(p); k != "" {
			s += "[" + k + "]"
		}
		parts = append([]string{s}, parts...)
	}
	return strings.Join(parts, ">")
}

func locus(a *An, w string) string {
	if n, ok := a.SrcNodeOf[w]; ok {
		return tagPath(n)
	}
	return "?"
}

func caseFromModel(kind string, d *ora.DocModel, atoms []ora.Atom, url string) *eng.Case {
	return &eng.Case{Kind: kind, HTML: d.Render(atoms), URL: url, P: map[string]string{"doc": d.Describe(atoms)}}
}

func pct(a, b int) string {
	if b == 0 {
		return "0"
	}
	return fmt.Sprintf("%d%%", a*100/b)
}

// seqEnum emits every sequence over `alphabet` of length 0..maxLen (append-only transitions).
func seqEnum(alphabet []int, maxLen int, emit func(seq []int)) {
	var rec func(seq []int)
	rec = func(seq []int) {
		emit(seq)
		if len(seq) == maxLen {
			return
		}
		for _, a := range alphabet {
			rec(append(seq, a))
		}
	}
	rec(nil)
}

// withDecor wraps an emit function: every `every`-th case that carries a document is emitted
// twice more, pretty-printed and with comments between its blocks (see ora.Decorate). The
// oracles read the parsed input, so they apply unchanged; real pages are indented and commented,
// the generated ones are not.
func withDecor(every int, emit func(*eng.Case)) func(*eng.Case) {
	i := 0
	return func(c *eng.Case) {
		emit(c)
		if c.Get("decor") != "" {
			return
		}
		i++
		if i%every != 0 {
			return
		}
		for _, how := range []string{"pretty", "comments"} {
			c2 := *c
			c2.P = map[string]string{}
			for k, v := range c.P {
				c2.P[k] = v
			}
			c2.P["decor"] = how // "doc" stays as it is: some oracles read their parameters from it
			emit(&c2)
		}
	}
}

func decorBound(tier string) string {
	return fmt.Sprintf("every %dth case of the check's own space is executed twice more: pretty-printed, and with comments between its blocks", decorEvery(tier))
}

func decorEvery(tier string) int {
	if tier == "thorough" {
		return 4
	}
	return 10
}
