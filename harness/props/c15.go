package props

import (
	"fmt"
	"strings"

	"golang.org/x/net/html"
	"verif/harness/eng"
	"verif/harness/ora"
)

// C15 — title comes from the page, is never invented, and is not repeated in content.

var c15Words = []string{"Alpha", "Beta", "Gamma", "Example.com", "Lorem ipsum dolor sit amet",
	// 110 characters but 200 bytes: a length window measured in bytes and one measured in characters disagree
	"Широкая электрификация южных губерний даст мощный толчок подъёму сельского хозяйства и развитию промышленности",
	"Pellentesque habitant morbi tristique senectus et netus et malesuada fames ac turpis egestas vestibulum tortor quam feugiat vitae ultricies eget tempor sit amet ante donec eu libero"}
var c15Seps = []string{" ", " - ", " | ", " » ", " / ", " > ", " \\ ", ": ", "-", "'", "\u00a0"}

var c15H1 = []string{"absent", "title", "part", "other"}
var c15H2 = []string{"absent", "title", "other"}
var c15Markup = []string{"absent", "schema", "og", "og-unqualified", "og-padded", "ie-padded", "og-optout", "og-upper"}

func c15Title(ws, ss []int) string {
	var sb strings.Builder
	for i, w := range ws {
		if i > 0 {
			sb.WriteString(c15Seps[ss[i-1]])
		}
		sb.WriteString(c15Words[w])
	}
	return sb.String()
}

func esc(s string) string {
	s = strings.ReplaceAll(s, "&", "&amp;")
	s = strings.ReplaceAll(s, "<", "&lt;")
	return strings.ReplaceAll(s, ">", "&gt;")
}

// longestPart splits on the spaced separators and returns the longest piece.
func c15Part(title string) string {
	best := ""
	cur := title
	for _, sep := range []string{" - ", " | ", " » ", " / ", " > ", " \\ ", ": "} {
		cur = strings.ReplaceAll(cur, sep, "\x00")
	}
	for _, p := range strings.Split(cur, "\x00") {
		if len(p) > len(best) {
			best = p
		}
	}
	return best
}

func c15Doc(title, h1, h2, markup string) string {
	t := &ora.Tok{}
	var head strings.Builder
	head.WriteString("<title>" + esc(title) + "</title>")
	body := ""
	switch markup {
	case "og":
		head.WriteString("<meta property=\"og:type\" content=\"article\"><meta property=\"og:title\" content=\"Markup Title Words\"><meta property=\"og:url\" content=\"http://x.example/\"><meta property=\"og:image\" content=\"http://x.example/i.jpg\">")
	case "og-padded":
		head.WriteString("<meta property=\"og:type\" content=\"article\"><meta property=\"og:title\" content=\"  Markup Title&nbsp;Words \n\"><meta property=\"og:url\" content=\"http://x.example/\"><meta property=\"og:image\" content=\"http://x.example/i.jpg\">")
	case "ie-padded":
		head.WriteString("<meta name=\"title\" content=\" Markup Title Words  \">")
	case "og-unqualified":
		head.WriteString("<meta property=\"og:type\" content=\"article\"><meta property=\"og:title\" content=\"Markup Title Words\"><meta property=\"og:url\" content=\"http://x.example/\">")
	case "og-upper":
		// a markup title that equals <title> except for letter case
		head.WriteString("<meta property=\"og:type\" content=\"article\"><meta property=\"og:title\" content=\"" + esc(strings.ToUpper(title)) + "\"><meta property=\"og:url\" content=\"http://x.example/\"><meta property=\"og:image\" content=\"http://x.example/i.jpg\">")
	case "og-optout":
		// complete OpenGraph block on a page that opts out: MarkupInfo is empty, so no markup title
		head.WriteString("<meta name=\"IE_RM_OFF\" content=\"true\"><meta property=\"og:type\" content=\"article\"><meta property=\"og:title\" content=\"Markup Title Words\"><meta property=\"og:url\" content=\"http://x.example/\"><meta property=\"og:image\" content=\"http://x.example/i.jpg\">")
	case "schema":
		body = "<div itemscope itemtype=\"http://schema.org/Article\"><span itemprop=\"headline\">Markup Title Words</span></div>"
	}
	var sb strings.Builder
	sb.WriteString("<html><head>" + head.String() + "</head><body><div class=\"main\">")
	switch h1 {
	case "title":
		sb.WriteString("<h1>" + esc(title) + "</h1>")
	case "part":
		sb.WriteString("<h1>" + esc(c15Part(title)) + "</h1>")
	case "other":
		sb.WriteString("<h1>Unrelated Heading Text Goes Right Here Now</h1>")
	}
	sb.WriteString("<p>" + t.W(22) + "</p>")
	if h2 == "title" {
		sb.WriteString("<h2>" + esc(title) + "</h2>")
	} else if h2 == "other" {
		sb.WriteString("<h2>Secondary Heading Made Of Seven Plain Words</h2>")
	}
	sb.WriteString("<p>" + t.W(25) + "</p><p>" + t.W(21) + "</p>" + body + "</div></body></html>")
	return sb.String()
}

func c15Enumerate(tier string, emit func(*eng.Case)) {
	crossEmit("C15", tier, "xtitle", 1, emit)
	emit = withDecor(decorEvery(tier), emit)
	maxWordsAll, maxWords := 2, 3
	if tier == "thorough" {
		maxWordsAll, maxWords = 3, 4
	}
	var rec func(ws, ss []int)
	rec = func(ws, ss []int) {
		if len(ws) > 0 {
			title := c15Title(ws, ss)
			for _, h1 := range c15H1 {
				for _, h2 := range c15H2 {
					for _, mk := range c15Markup {
						if len(ws) > maxWordsAll && !(h2 == "absent" && (mk == "absent" || mk == "schema")) {
							continue
						}
						if len(ws) > 1 && (mk == "og-padded" || mk == "ie-padded" || mk == "og-optout" || mk == "og-upper") && h1 != "absent" {
							continue
						}
						emit(&eng.Case{Kind: "title", P: map[string]string{"title": title, "h1": h1, "h2": h2, "markup": mk,
							"doc": fmt.Sprintf("<title>%s</title> h1=%s h2=%s markup=%s", ora.Trunc(title, 120), h1, h2, mk)}})
					}
				}
			}
		}
		if len(ws) == maxWords {
			return
		}
		for w := range c15Words {
			if len(ws) == 0 {
				rec([]int{w}, nil)
				continue
			}
			for s := range c15Seps {
				rec(append(ws[:len(ws):len(ws)], w), append(ss[:len(ss):len(ss)], s))
			}
		}
	}
	rec(nil, nil)
}

func normWS(s string) string { return strings.Join(strings.Fields(s), " ") }

func c15Render(c *eng.Case) string {
	return c15Doc(c.Get("title"), c.Get("h1"), c.Get("h2"), c.Get("markup"))
}

func c15Check(c *eng.Case) *eng.Outcome {
	o := &eng.Outcome{}
	if c.Kind != "xtitle" {
		c.HTML = c15Render(c)
	}
	a := analyse(c, o)
	if a == nil {
		return o
	}
	got := a.Res.Title
	// what the parsed page says
	pageTitle := ""
	if tn := ora.Elements(a.Doc, "title"); len(tn) > 0 {
		pageTitle = normWS(ora.AllText(tn[0]))
	}
	h1Text := ""
	hasH1 := false
	if hs := ora.Elements(a.Doc, "h1"); len(hs) > 0 {
		h1Text = normWS(ora.AllText(hs[0]))
		hasH1 = true
	}
	shape := titleShape(pageTitle)
	mt := a.Res.MarkupInfo.Title
	switch {
	case mt != "":
		if got != mt {
			o.V("markup-title-not-used", "MarkupInfo.Title=%q but Title=%q; %s", mt, got, c.Get("doc"))
		}
	default:
		ng := normWS(got)
		if !(strings.Contains(pageTitle, ng) || (hasH1 && ng == h1Text)) {
			o.V("invented:"+shape, "Title=%q is neither a contiguous part of <title> %q nor the first h1 %q; %s", got, pageTitle, h1Text, c.Get("doc"))
		}
		if ng == "" && pageTitle != "" {
			o.V("empty-title:"+shape, "Title is empty although <title> is %q; %s", pageTitle, c.Get("doc"))
		}
		n := len([]rune(pageTitle))
		hasSep := false
		for _, sep := range []string{" | ", " - ", " \\ ", " / ", " > ", " » ", ": "} {
			if strings.Contains(pageTitle, sep) {
				hasSep = true
			}
		}
		if n >= 15 && n <= 150 && !hasSep && ng != pageTitle {
			o.V("plain-title-changed:"+shape, "<title> %q is 15-150 characters without separator pattern, but Title=%q; %s", pageTitle, got, c.Get("doc"))
		}
	}
	// (d) no block whose text is the title is emitted again
	repeated := false
	blockIsTitle := false
	if got != "" {
		outHTML := normWS(ora.AllText(a.Res.Node))
		_ = outHTML
		for _, b := range ora.Elements(a.Doc, "h1", "h2", "h3", "p") {
			if ora.Ancestor(b, "head") != nil {
				continue
			}
			bt := normWS(ora.AllText(b))
			if bt == "" || bt != normWS(got) {
				continue
			}
			blockIsTitle = true
			// is this block in the output? look for an output element with exactly this text
			for _, ob := range ora.Elements(a.Res.Node, "h1", "h2", "h3", "p") {
				if normWS(ora.AllText(ob)) == bt {
					repeated = true
				}
			}
			for _, line := range strings.Split(a.Res.Text, "\n") {
				if normWS(line) == bt {
					repeated = true
				}
			}
			if repeated {
				o.V(fmt.Sprintf("title-repeated:%s:%s", b.Data, shape), "block <%s> %q equals Title and is emitted again in the distilled content; %s", b.Data, bt, c.Get("doc"))
				break
			}
		}
	}
	o.Nontrivial = blockIsTitle || (mt == "" && normWS(got) != pageTitle)
	o.Class = fmt.Sprintf("shape=%s markup=%v title=%s block-is-title=%v", shape, mt != "", titleRel(got, pageTitle, h1Text), blockIsTitle)
	return o
}

func titleRel(got, page, h1 string) string {
	g := normWS(got)
	switch {
	case g == page:
		return "whole"
	case g == "":
		return "empty"
	case strings.Contains(page, g):
		return "part"
	case g == h1:
		return "h1"
	}
	return "other"
}

// titleShape abstracts a title to its separator structure, e.g. "W - W | W".
func titleShape(s string) string {
	for _, w := range c15Words {
		s = strings.ReplaceAll(s, w, "W")
	}
	if len(s) > 40 {
		s = s[:40]
	}
	return s
}

var _ = html.ElementNode

func init() {
	eng.Register(&eng.Prop{
		ID:        "C15",
		DesignRef: "§5 C15",
		Rule: "all <title> strings word(sep word)* with <= 3 (quick) / <= 4 (thorough) words over 7 words (3 short, one containing a .com domain, a 26-character filler, a 110-character/200-byte Cyrillic sentence, a 180-character filler) and 11 separators (incl. NBSP) (' ', ' - ', ' | ', ' » ', ' / ', ' > ', ' \\ ', ': ', '-', apostrophe) x h1 {absent, = title, = longest part, other} x h2 {absent, = title, other} x markup title {absent, schema.org headline, OpenGraph qualified, OpenGraph unqualified, OpenGraph and IE titles padded with whitespace/NBSP, qualified OpenGraph on a page that opts out, an OpenGraph title equal to <title> in upper case}; the full variant product for titles of <= 2 / <= 3 words, h1 x {no markup, schema} for the longest titles. " +
			crossRule + " Oracle: MarkupInfo.Title non-empty => Title equals it; else Title is a contiguous part of the normalised <title> or the first h1, non-empty when <title> is, and exactly <title> when that is 15-150 characters with no separator pattern; no h1/h2/h3/p whose text equals Title is emitted in Text or result.Node. " +
			"Non-trivial = a block equal to Title exists, or the heuristic changed the title.",
		Enumerate: c15Enumerate,
		Check:     c15Check,
		Prepare:   func(tier string) { CrossCorpus(tier) },
		Bounds: func(tier string) map[string]any {
			if tier == "thorough" {
				return map[string]any{"decorated_variants": decorBound(tier), "max_words": 4, "max_words_full_variants": 3, "words": len(c15Words), "separators": len(c15Seps)}
			}
			return map[string]any{"decorated_variants": decorBound(tier), "max_words": 3, "max_words_full_variants": 2, "words": len(c15Words), "separators": len(c15Seps)}
		},
	})
}
