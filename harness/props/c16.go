package props

import (
	"fmt"
	nurl "net/url"
	"strings"

	"golang.org/x/net/html"
	"verif/harness/eng"
	"verif/harness/ora"
)

// C16 — pagination links are real, same-site, fetchable URLs.

type c16Page struct {
	name string
	url  func(k int) string // page URL of page k as supplied by the caller
	link func(i int) string // conventional href of page i
}

var c16Pages = []c16Page{
	{"query", func(k int) string { return fmt.Sprintf("http://example.com/story?page=%d", k) }, func(i int) string { return fmt.Sprintf("http://example.com/story?page=%d", i) }},
	{"query-rel", func(k int) string { return fmt.Sprintf("http://example.com/a/story?page=%d", k) }, func(i int) string { return fmt.Sprintf("?page=%d", i) }},
	{"path-slash", func(k int) string { return fmt.Sprintf("http://example.com/a/b/%d/", k) }, func(i int) string { return fmt.Sprintf("/a/b/%d/", i) }},
	{"dir-slash", func(k int) string { return "http://example.com/a/b/" }, func(i int) string { return fmt.Sprintf("http://example.com/a/b/?page=%d", i) }},
	{"escaped", func(k int) string { return fmt.Sprintf("http://example.com/a/b%%20c/%d", k) }, func(i int) string { return fmt.Sprintf("http://example.com/a/b%%20c/%d", i) }},
	{"query-trailing-slash", func(k int) string { return fmt.Sprintf("http://example.com/gallery?page=%d&back=/news/", k) }, func(i int) string { return fmt.Sprintf("http://example.com/gallery?page=%d&back=/news/", i) }},
	{"path-fragment", func(k int) string { return fmt.Sprintf("http://example.com/story/page/%d#top", k) }, func(i int) string { return fmt.Sprintf("http://example.com/story/page/%d", i) }},
	{"first-noparam-fragment", func(k int) string {
		if k == 1 {
			return "http://example.com/article#top"
		}
		return fmt.Sprintf("http://example.com/article?page=%d#top", k)
	}, func(i int) string {
		if i == 1 {
			return "http://example.com/article"
		}
		return fmt.Sprintf("http://example.com/article?page=%d", i)
	}},
	{"first-noparam-userinfo", func(k int) string {
		if k == 1 {
			return "http://user@example.com/article"
		}
		return fmt.Sprintf("http://user@example.com/article?page=%d", k)
	}, func(i int) string {
		if i == 1 {
			return "/article"
		}
		return fmt.Sprintf("/article?page=%d", i)
	}},
	{"https-port", func(k int) string { return fmt.Sprintf("https://example.com:8443/story-%d.html", k) }, func(i int) string { return fmt.Sprintf("story-%d.html", i) }},
}

// odd hrefs for a slot that is meant to point to page i
var c16Odd = []struct {
	name string
	gen  func(i int) string
}{
	{"javascript", func(i int) string { return fmt.Sprintf("javascript:go(%d)", i) }},
	{"empty", func(i int) string { return "" }},
	{"hash", func(i int) string { return "#" }},
	{"hash-page", func(i int) string { return fmt.Sprintf("#page%d", i) }},
	{"mailto", func(i int) string { return "mailto:someone@example.com" }},
	{"offsite", func(i int) string { return fmt.Sprintf("http://other.example/story?page=%d", i) }},
	{"offsite-scheme-rel", func(i int) string { return fmt.Sprintf("//other.example/story?page=%d", i) }},
	{"offsite-lookalike", func(i int) string { return fmt.Sprintf("http://example.com.evil.example/story?page=%d", i) }},
	{"offsite-dot-as-any", func(i int) string { return fmt.Sprintf("http://examplexcom/story?page=%d", i) }},
	{"offsite-dot-as-dash", func(i int) string { return fmt.Sprintf("//example-com/story?page=%d", i) }},
	{"upper-host", func(i int) string { return fmt.Sprintf("HTTP://EXAMPLE.COM/story?page=%d", i) }},
	{"userinfo", func(i int) string { return fmt.Sprintf("http://user@example.com/story?page=%d", i) }},
	{"other-port", func(i int) string { return fmt.Sprintf("http://example.com:8080/story?page=%d", i) }},
	{"rel-file", func(i int) string { return fmt.Sprintf("b.html?page=%d", i) }},
	{"rel-dir", func(i int) string { return fmt.Sprintf("%d/", i) }},
	{"dotdot", func(i int) string { return fmt.Sprintf("../story?page=%d", i) }},
	{"with-fragment", func(i int) string { return fmt.Sprintf("/story?page=%d#top", i) }},
	{"ftp", func(i int) string { return fmt.Sprintf("ftp://example.com/story?page=%d", i) }},
	{"data", func(i int) string { return fmt.Sprintf("data:text/html,page%d", i) }},
	{"unparseable", func(i int) string { return fmt.Sprintf("%%zz?page=%d", i) }},
	{"scheme-rel-same", func(i int) string { return fmt.Sprintf("//example.com/story?page=%d", i) }},
	{"no-href", func(i int) string { return "\x00" }},
	{"space-path", func(i int) string { return fmt.Sprintf("/a/b c/%d", i) }},
	{"query-escaped-hash", func(i int) string { return fmt.Sprintf("/story?tag=c%%23&page=%d", i) }},
	{"query-escaped-amp", func(i int) string { return fmt.Sprintf("/story?q=a%%26b%%3Dc&page=%d", i) }},
	{"js-upper", func(i int) string { return fmt.Sprintf("JavaScript:go(%d)", i) }},
}

var c16Skels = []string{"numbered", "numbered+nav", "nav-only", "two-pagers", "numbered+base", "numbered+nav+base"}

type c16Slot struct {
	page  int    // page the slot points to
	label string // anchor text
	text  bool   // plain text (current page), not a link slot
	brk   bool   // start a second pager here
}

// c16Items lists the pager items in document order; link slots are the items with !text.
func c16Items(skel string, k int) []c16Slot {
	var s []c16Slot
	num := func() {
		for i := 1; i <= 4; i++ {
			s = append(s, c16Slot{page: i, label: fmt.Sprint(i), text: i == k})
		}
	}
	nav := func() {
		if k > 1 {
			s = append(s, c16Slot{page: k - 1, label: "Prev"})
		}
		s = append(s, c16Slot{page: k + 1, label: "Next »"})
	}
	switch skel {
	case "numbered", "numbered+base":
		num()
	case "numbered+nav", "numbered+nav+base":
		num()
		nav()
	case "nav-only":
		nav()
	case "two-pagers":
		num()
		s = append(s, c16Slot{brk: true})
		num()
	}
	return s
}

func c16Slots(skel string, k int) []c16Slot {
	var out []c16Slot
	for _, it := range c16Items(skel, k) {
		if !it.text && !it.brk {
			out = append(out, it)
		}
	}
	return out
}

func c16Doc(pg c16Page, skel string, k int, odd map[int]int) string {
	t := &ora.Tok{}
	var pager strings.Builder
	pager.WriteString("<div class=\"pagination\">")
	si := 0
	for _, it := range c16Items(skel, k) {
		switch {
		case it.brk:
			pager.WriteString("</div><p>" + t.W(21) + "</p><div class=\"pages\">")
		case it.text:
			pager.WriteString(" " + it.label + " ")
		default:
			href := pg.link(it.page)
			if o, ok := odd[si]; ok {
				href = c16Odd[o].gen(it.page)
			}
			si++
			if href == "\x00" {
				pager.WriteString(" <a>" + it.label + "</a> ")
			} else {
				pager.WriteString(" <a href=\"" + strings.ReplaceAll(href, "&", "&amp;") + "\">" + it.label + "</a> ")
			}
		}
	}
	pager.WriteString("</div>")
	base := ""
	if strings.HasSuffix(skel, "+base") {
		// a <base> element pointing to a mirror host: the property speaks of the page URL's host
		base = "<base href=\"http://mirror.example.net/a/b/\">"
	}
	return "<html><head><title>" + ora.DefaultTitle + "</title>" + base + "</head><body><div class=\"main\"><p>" + t.W(22) + "</p><p>" + t.W(25) + "</p><p>" + t.W(21) + "</p></div>" + pager.String() + "</body></html>"
}

func c16Enumerate(tier string, emit func(*eng.Case)) {
	// documents of the other checks under their page URL (or a default), both algorithms
	crossEmit("C16", tier, "xpager", 1, func(c *eng.Case) {
		if c.URL == "" {
			c.URL = "http://example.com/a/b/story.html"
		}
		for algo := 0; algo < 2; algo++ {
			emit(&eng.Case{Kind: "xpager", HTML: c.HTML, URL: c.URL, Algo: algo, P: c.P})
		}
	})
	emit = withDecor(decorEvery(tier), emit)
	maxOdd := 2
	if tier == "thorough" {
		maxOdd = 3
	}
	for pi, pg := range c16Pages {
		for _, skel := range c16Skels {
			for k := 1; k <= 3; k++ {
				nslots := len(c16Slots(skel, k))
				var rec func(start int, odd map[int]int)
				rec = func(start int, odd map[int]int) {
					var d []string
					for s := 0; s < nslots; s++ {
						if o, ok := odd[s]; ok {
							d = append(d, fmt.Sprintf("slot%d=%s", s, c16Odd[o].name))
						}
					}
					html := c16Doc(pg, skel, k, odd)
					for algo := 0; algo < 2; algo++ {
						emit(&eng.Case{Kind: "pager", HTML: html, URL: pg.url(k), Algo: algo,
							P: map[string]string{"doc": fmt.Sprintf("page=%s(%d) k=%d skel=%s %s", pg.name, pi, k, skel, strings.Join(d, " "))}})
					}
					if len(odd) == maxOdd || (tier != "thorough" && len(odd) == 1 && (strings.HasSuffix(skel, "+base") || !(pg.name == "query" || pg.name == "path-slash" || pg.name == "query-trailing-slash"))) {
						return
					}
					for s := start; s < nslots; s++ {
						for o := range c16Odd {
							o2 := map[int]int{}
							for a, b := range odd {
								o2[a] = b
							}
							o2[s] = o
							rec(s+1, o2)
						}
					}
				}
				rec(0, map[int]int{})
			}
		}
	}
}

// urlKey canonicalises a URL for the "target of a real anchor" comparison: fragment dropped,
// one trailing slash trimmed, path compared in decoded form, scheme and host lower-cased.
func urlKey(u *nurl.URL) string {
	p := u.Path
	p = strings.TrimSuffix(p, "/")
	k := strings.ToLower(u.Scheme) + "://"
	if u.User != nil {
		k += u.User.String() + "@"
	}
	k += strings.ToLower(u.Host) + p
	if u.RawQuery != "" || u.ForceQuery {
		k += "?" + u.RawQuery
	}
	return k
}

func c16Check(c *eng.Case) *eng.Outcome {
	o := &eng.Outcome{}
	a := analyse(c, o)
	if a == nil {
		return o
	}
	page, err := nurl.Parse(c.URL)
	if err != nil {
		o.Skipped = "bad page url"
		return o
	}
	targets := map[string]string{}
	oddPresent := false
	for _, an := range ora.Elements(a.Doc, "a") {
		h, ok := ora.Attr(an, "href")
		if !ok {
			oddPresent = true
			continue
		}
		ref, err := nurl.Parse(h)
		if err != nil {
			oddPresent = true
			continue
		}
		abs := page.ResolveReference(ref)
		if abs.Scheme != "http" && abs.Scheme != "https" || !strings.EqualFold(abs.Hostname(), page.Hostname()) || h == "" || strings.HasPrefix(h, "#") {
			oddPresent = true
		}
		targets[urlKey(abs)] = h
	}
	algo := []string{"prevnext", "pagenumber"}[c.Algo]
	found := false
	for _, which := range []string{"NextPage", "PrevPage"} {
		v := a.Res.PaginationInfo.NextPage
		if which == "PrevPage" {
			v = a.Res.PaginationInfo.PrevPage
		}
		if v == "" {
			continue
		}
		found = true
		u, err := nurl.Parse(v)
		if err != nil {
			o.V(fmt.Sprintf("unparseable:%s:%s", algo, which), "%s=%q does not parse; %s", which, v, c.Get("doc"))
			continue
		}
		if s := strings.ToLower(u.Scheme); s != "http" && s != "https" {
			o.V(fmt.Sprintf("scheme:%s:%s:%s", algo, which, strings.ToLower(u.Scheme)), "%s=%q is not an http(s) URL; %s", which, v, c.Get("doc"))
			continue
		}
		if u.Host == "" || !strings.EqualFold(u.Host, page.Host) {
			o.V(fmt.Sprintf("host:%s:%s", algo, which), "%s=%q is not on the page's host %q; %s", which, v, page.Host, c.Get("doc"))
			continue
		}
		if _, ok := targets[urlKey(u)]; !ok {
			self := ""
			if urlKey(u) == urlKey(page) {
				self = ":is-page-itself"
			}
			o.V(fmt.Sprintf("not-an-anchor-target:%s:%s%s", algo, which, self), "%s=%q is not the (normalised) target of any anchor of the document (page URL %s); %s", which, v, c.URL, c.Get("doc"))
		}
	}
	o.Nontrivial = found && oddPresent
	o.Class = fmt.Sprintf("%s found=%v odd=%v", algo, found, oddPresent)
	return o
}

var _ = html.ElementNode

func init() {
	eng.Register(&eng.Prop{
		ID:        "C16",
		DesignRef: "§5 C16",
		Rule: "10 page-URL families (a first page without page parameter under a page URL with user info, query, query whose last value ends in a slash, relative query, path with trailing slash, directory with trailing slash, escaped path, page URLs carrying a fragment - with the page number in the path, and with a first page that has no page parameter -, https with port and relative file names) x current page k in 1..3 x 6 pager skeletons (numbered, numbered + Prev/Next anchors, Prev/Next only, two pagers, the first two again with a <base href> on another host) x both algorithms; every assignment of <= 2 (quick: two odd slots for three of the families, one for the others) / <= 3 (thorough) link slots to one of 26 odd hrefs (hosts that equal the page's host when a dot is read as any character, escaped #, & and = inside a query value, javascript:, empty, #, mailto:, off-site, scheme-relative, look-alike host, upper-case host, userinfo, other port, relative file/dir, ../, fragment, ftp:, data:, unparseable, missing href, space in path, JavaScript:)." + crossRule + " (under both algorithms) " +
			"Oracle: a non-empty NextPage/PrevPage parses, is http(s), has the page's host (case-insensitively), and equals - after dropping the fragment and one trailing slash, paths compared decoded - the RFC 3986 resolution of some anchor's href against the page URL as supplied. Non-trivial = a link was returned and the document holds >= 1 non-fetchable/off-site href.",
		Enumerate: c16Enumerate,
		Check:     c16Check,
		Prepare:   func(tier string) { CrossCorpus(tier) },
		Bounds: func(tier string) map[string]any {
			m := 2
			if tier == "thorough" {
				m = 3
			}
			return map[string]any{"decorated_variants": decorBound(tier), "page_url_families": len(c16Pages), "k": "1..3", "skeletons": len(c16Skels), "odd_hrefs": len(c16Odd), "max_odd_slots": m}
		},
	})
}
