package props

import (
	"bytes"
	"fmt"
	"net/http"
	nurl "net/url"
	"os"
	"os/exec"
	"path/filepath"
	"regexp"
	"sort"
	"strings"
	"sync"
	"time"

	distiller "github.com/markusmobius/go-domdistiller"
	"github.com/markusmobius/go-domdistiller/verifrt"
	"golang.org/x/net/html"
	"verif/harness/eng"
	"verif/harness/ora"
)

// C12 — Apply is safe for concurrent use.

const c12URL = "http://example.com/story?page=2"

func c12Docs() map[string]string {
	t := &ora.Tok{}
	min := "<html><head><title>" + ora.DefaultTitle + "</title></head><body><p>" + t.W(20) + " <a href=\"/story?page=3\">Next</a></p></body></html>"
	atoms := c11Atoms
	s := ora.StdSkeletons(atoms)
	rich1 := (&ora.DocModel{Skel: "S2", Top: append(append([]int{}, s[1].Top...), ora.AtomIndex(atoms, "PAGER")...), ArtC: append(append([]int{}, s[1].ArtC...), ora.AtomIndex(atoms, "TBLd", "FIG", "YTq")...)}).Render(atoms)
	rich2 := (&ora.DocModel{Skel: "S1", Top: s[0].Top, ArtC: append(append([]int{}, s[0].ArtC...), ora.AtomIndex(atoms, "UL3", "JS1", "INL", "LBL", "LAZYs", "SCH2", "EMBp")...)}).Render(atoms)
	// every paragraph in a wrapper of its own (blocks are not siblings), legacy namespace prefix on the root
	t2 := &ora.Tok{}
	var wb strings.Builder
	wb.WriteString("<html lang=\"en\" xmlns:ogp=\"http://ogp.me/ns#\"><head><title>" + ora.DefaultTitle + "</title><meta property=\"ogp:title\" content=\"T\"></head><body>")
	for i := 0; i < 9; i++ {
		wb.WriteString("<div class=\"w\"><div><p>" + t2.W(24) + "</p></div></div>")
	}
	wb.WriteString("</body></html>")
	// OpenGraph namespaces declared by a prefix attribute, under different names in the two pages
	t3 := &ora.Tok{}
	pfx := func(decl, og string) string {
		return "<html prefix=\"" + decl + "\"><head><title>" + ora.DefaultTitle + "</title><meta property=\"" + og + ":type\" content=\"article\"><meta property=\"" + og + ":title\" content=\"T\"><meta property=\"" + og + ":url\" content=\"http://example.com/x\"><meta property=\"" + og + ":image\" content=\"http://example.com/i.jpg\"></head><body><p>" + t3.W(24) + "</p><p>" + t3.W(22) + "</p></body></html>"
	}
	// two pages with non-ASCII text (the byte entry points decode, normalise and re-encode them)
	utf := func(word string) string {
		var sb strings.Builder
		sb.WriteString("<html><head><meta charset=\"utf-8\"><title>" + ora.DefaultTitle + "</title></head><body>")
		for i := 0; i < 6; i++ {
			sb.WriteString("<p>")
			for j := 0; j < 25; j++ {
				fmt.Fprintf(&sb, "%s%d ", word, i*25+j)
			}
			sb.WriteString("</p>")
		}
		sb.WriteString("</body></html>")
		return sb.String()
	}
	return map[string]string{"utfA": utf("caf\u00e9"), "utfB": utf("\u00fcber\u00adgro\u00df"), "min": min, "rich1": rich1, "rich2": rich2, "wrapped": wb.String(),
		"prefixA": pfx("og: http://ogp.me/ns# article: http://ogp.me/ns/article#", "og"), "prefixB": pfx("ogp: http://ogp.me/ns#", "ogp")}
}

type c12Thread struct {
	doc    string // key into c12Docs
	entry  string // apply-shared, apply-own, reader
	flags  uint
	algo   int
	shared bool // uses the shared *Options
}

type c12Scenario struct {
	name    string
	threads []c12Thread
	// X scenarios (documents of the cross corpus): the page, its URL and algorithm travel with the case
	html string
	url  string
	algo int
}

// c12X is the scenario "two Apply calls on one shared tree with one shared *Options" for an
// arbitrary document.
func c12X(html, url string, algo int) c12Scenario {
	return c12Scenario{name: "X", threads: []c12Thread{{"@case", "apply-shared", 0, algo, true}, {"@case", "apply-shared", 0, algo, true}}, html: html, url: url, algo: algo}
}

func c12Scenarios() []c12Scenario {
	return []c12Scenario{
		{name: "S-a-min", threads: []c12Thread{{"min", "apply-shared", 0, 0, true}, {"min", "apply-shared", 0, 0, true}}},
		{name: "S-a-rich", threads: []c12Thread{{"rich1", "apply-shared", 0, 0, true}, {"rich1", "apply-shared", 0, 0, true}}},
		{name: "S-b", threads: []c12Thread{{"rich1", "apply-own", 0, 0, true}, {"rich2", "apply-own", 0, 0, true}}},
		{name: "S-c", threads: []c12Thread{{"min", "apply-shared", 0, 0, true}, {"min", "apply-shared", 0, 0, true}, {"min", "apply-own", 30, 1, false}}},
		{name: "S-d", threads: []c12Thread{{"rich2", "apply-shared", 0, 0, true}, {"rich2", "reader", 0, 1, false}}},
		{name: "S-e-log", threads: []c12Thread{{"min", "apply-shared", 30, 1, false}, {"min", "apply-own", 30, 0, false}}},
		{name: "S-j-reader-utf8", threads: []c12Thread{{"utfA", "reader", 0, 0, false}, {"utfB", "reader", 0, 0, false}}},
		{name: "S-i-url-nil", threads: []c12Thread{{"min", "url-nil", 0, 0, false}, {"min", "url-nil", 0, 0, false}}},
		{name: "S-h-url", threads: []c12Thread{{"min", "url", 0, 0, true}, {"min", "url", 0, 0, true}}},
		{name: "S-g-prefix", threads: []c12Thread{{"prefixA", "apply-own", 0, 0, true}, {"prefixB", "apply-own", 0, 0, true}}},
		{name: "S-f-wrapped", threads: []c12Thread{{"wrapped", "apply-own", 0, 0, true}, {"wrapped", "apply-own", 0, 0, true}}},
	}
}

const c12Shards = 48

func c12Enumerate(tier string, emit func(*eng.Case)) {
	for _, sc := range c12Scenarios() {
		// V-level: unbounded over visible operations
		emit(&eng.Case{Kind: "sched", P: map[string]string{"scenario": sc.name, "level": "V", "bound": "1000", "shard": "0", "nshards": "1", "doc": sc.name + " V-level unbounded"}})
		if sc.name == "S-h-url" || sc.name == "S-i-url-nil" || sc.name == "S-j-reader-utf8" {
			continue // below the entry point this is S-a-min; the entry point itself is explored at A-level
		}
		// F-level
		bound := 1
		if tier == "thorough" && (sc.name == "S-a-min") {
			bound = 2
		}
		if tier != "thorough" && (sc.name == "S-a-rich" || sc.name == "S-b") {
			// quick: rich scenarios at F-level are sampled by every 4th shard (stated cap)
			for sh := 0; sh < c12Shards; sh += 4 {
				emit(&eng.Case{Kind: "sched", P: map[string]string{"scenario": sc.name, "level": "F", "bound": "1", "shard": fmt.Sprint(sh), "nshards": fmt.Sprint(c12Shards), "doc": fmt.Sprintf("%s F-level bound 1 shard %d/%d", sc.name, sh, c12Shards)}})
			}
			continue
		}
		for sh := 0; sh < c12Shards; sh++ {
			emit(&eng.Case{Kind: "sched", P: map[string]string{"scenario": sc.name, "level": "F", "bound": fmt.Sprint(bound), "shard": fmt.Sprint(sh), "nshards": fmt.Sprint(c12Shards), "doc": fmt.Sprintf("%s F-level bound %d shard %d/%d", sc.name, bound, sh, c12Shards)}})
		}
	}
	// A-level: the entry points themselves (what they do with the caller's Options before and after
	// the extraction) interleaved with two preemptions
	for _, name := range []string{"S-h-url", "S-i-url-nil", "S-j-reader-utf8", "S-a-min", "S-e-log"} {
		emit(&eng.Case{Kind: "sched", P: map[string]string{"scenario": name, "level": "A", "bound": "1000", "shard": "0", "nshards": "1", "doc": name + " A-level (function entries of distiller.go) unbounded"}})
	}
	// X: the documents of the other checks (quick: every 16th document of the cross corpus), two
	// calls sharing tree and Options, V-level
	every := 16
	if tier == "thorough" {
		every = 8
	}
	crossEmit("C12", tier, "sched", every, func(c *eng.Case) {
		c.P["scenario"], c.P["level"], c.P["bound"], c.P["shard"], c.P["nshards"] = "X", "V", "1000", "0", "1"
		c.P["doc"] = "X V-level: " + c.P["doc"]
		emit(c)
	})
	emit(&eng.Case{Kind: "racepass", P: map[string]string{"doc": "free-running -race pass over the scenario bodies", "tier": tier}})
}

// c12Build prepares the shared inputs and one body per thread. results[i] receives the
// canonical result of thread i.
type c12Run struct {
	bodies    []func()
	results   []string
	sharedDoc map[string]*html.Node
	sharedOpt *distiller.Options
	sharedSet map[*html.Node]bool
	optSnap   string
	treeSnap  map[string]string
}

func c12Prepare(sc c12Scenario) *c12Run {
	var docs map[string]string
	pageURL := c12URL
	if sc.name == "X" {
		docs = map[string]string{"@case": sc.html}
		if sc.url != "" {
			pageURL = sc.url
		}
	} else {
		docs = c12Docs()
	}
	r := &c12Run{results: make([]string, len(sc.threads)), sharedDoc: map[string]*html.Node{}, sharedSet: map[*html.Node]bool{}, treeSnap: map[string]string{}}
	u, _ := nurl.Parse(pageURL)
	r.sharedOpt = &distiller.Options{OriginalURL: u, PaginationAlgo: distiller.PaginationAlgo(sc.algo)}
	r.optSnap = optsSnapshot(r.sharedOpt)
	for i, th := range sc.threads {
		i, th := i, th
		var opts *distiller.Options
		if th.shared {
			opts = r.sharedOpt
		} else {
			u2, _ := nurl.Parse(c12URL)
			opts = &distiller.Options{OriginalURL: u2, LogFlags: distiller.LogFlag(th.flags), PaginationAlgo: distiller.PaginationAlgo(th.algo)}
		}
		var tree *html.Node
		fetch := fmt.Sprintf("http://example.com/fetched/thread-%d?page=2", i)
		switch th.entry {
		case "apply-shared":
			if r.sharedDoc[th.doc] == nil {
				d := ora.Parse(docs[th.doc])
				r.sharedDoc[th.doc] = d
				ora.Walk(d, func(n *html.Node) bool { r.sharedSet[n] = true; return true })
				r.treeSnap[th.doc], _ = treeSnapshot(d)
			}
			tree = r.sharedDoc[th.doc]
		case "apply-own":
			tree = ora.Parse(docs[th.doc])
		}
		src := docs[th.doc]
		r.bodies = append(r.bodies, func() {
			var res *distiller.Result
			var err error
			if th.entry == "reader" {
				res, err = distiller.ApplyForReader(strings.NewReader(src), opts)
			} else if th.entry == "url-nil" {
				res, err = distiller.ApplyForURL(fetch, 10*time.Minute, nil)
			} else if th.entry == "url" {
				// through the in-process transport installed by c12Check / RacePassMain
				res, err = distiller.ApplyForURL(fetch, 10*time.Minute, opts) // the client timeout is wall-clock time: far above any pause the scheduler can cause
			} else {
				res, err = distiller.Apply(tree, opts)
			}
			if err != nil {
				r.results[i] = "ERR " + err.Error()
			} else {
				r.results[i] = fullKey(res)
			}
		})
	}
	return r
}

func c12Scenario0(name string) (c12Scenario, bool) {
	for _, sc := range c12Scenarios() {
		if sc.name == name {
			return sc, true
		}
	}
	return c12Scenario{}, false
}

// c12EverWritten records, for the life of the process, the package variables that library
// code has written after init. A lazily filled global (memo map, cache) is written only the
// first time a value is needed, so later executions in the same process see reads only; the
// write nevertheless happens concurrently in a fresh process. Any access to such a variable is
// therefore treated as a potential write by the race monitor.
var c12EverWritten = map[int]bool{}

// c12WriteLocks[v] is the intersection of the locksets held at every write to v seen so far.
var c12WriteLocks = map[int]map[int]bool{}

func c12NoteWrite(v int, held map[int]bool) {
	c12EverWritten[v] = true
	w, ok := c12WriteLocks[v]
	if !ok {
		w = map[int]bool{}
		for l := range held {
			w[l] = true
		}
		c12WriteLocks[v] = w
		return
	}
	for l := range w {
		if !held[l] {
			delete(w, l)
		}
	}
}

func disjoint(a, b map[int]bool) bool {
	for l := range a {
		if b[l] {
			return false
		}
	}
	return true
}

type accessRec struct {
	thread int
	write  bool
	locks  map[int]bool
}

func c12Check(c *eng.Case) *eng.Outcome {
	o := &eng.Outcome{}
	if c.Kind == "racepass" {
		return c12RacePass(c)
	}
	oldTransport := http.DefaultTransport
	http.DefaultTransport = &stubTransport{body: c12Docs()["min"]}
	defer func() { http.DefaultTransport = oldTransport }()
	sc, ok := c12Scenario0(c.Get("scenario"))
	if c.Get("scenario") == "X" {
		sc, ok = c12X(c.HTML, c.URL, c.Algo), true
	}
	if !ok {
		o.Skipped = "unknown scenario"
		return o
	}
	for _, n := range verifrt.Notes {
		if strings.Contains(n, "go statement") {
			// the library starts goroutines of its own: the cooperative scheduler does not control
			// them, so interleavings cannot be enumerated; the race-detector pass still runs
			o.Skipped = "library spawns goroutines (not modelled by the scheduler): " + n
			return o
		}
	}
	var bound, shard, nshards int
	fmt.Sscan(c.Get("bound"), &bound)
	fmt.Sscan(c.Get("shard"), &shard)
	fmt.Sscan(c.Get("nshards"), &nshards)
	level := c.Get("level")

	// solo results and profiling (no scheduler): which package variables are ever written
	written := map[int]bool{}
	solo := make([]string, len(sc.threads))
	{
		r := c12Prepare(sc)
		held := map[int]bool{}
		verifrt.Hook = func(kind, site, arg int, write bool, n *html.Node) {
			switch {
			case kind == verifrt.KLock:
				held[arg] = true
			case kind == verifrt.KUnlock:
				delete(held, arg)
			case kind == verifrt.KVar && write:
				written[arg] = true
				c12NoteWrite(arg, held)
			}
		}
		for i, b := range r.bodies {
			for l := range held {
				delete(held, l)
			}
			if pi := eng.Protect(b); pi != nil {
				verifrt.Hook = nil
				o.Skipped = "solo run panics: " + pi.Sig()
				return o
			}
			solo[i] = r.results[i]
		}
		verifrt.Hook = nil
		o.Execs += len(r.bodies)
	}

	visibleOps := int64(0)
	preempted := int64(0)
	vCapNote := ""
	var maxPts int
	st, err := eng.ExploreShard(bound, shard, nshards, func(ch *eng.Chooser) {
		r := c12Prepare(sc)
		s := &eng.Sched{}
		locks := make([]map[int]bool, len(sc.threads))
		for i := range locks {
			locks[i] = map[int]bool{}
		}
		acc := map[int][]accessRec{}
		var problems []eng.Violation
		add := func(sig, f string, a ...any) {
			if len(problems) < 4 {
				problems = append(problems, eng.Violation{Sig: sig, Msg: fmt.Sprintf(f, a...)})
			}
		}
		s.OnEvent = func(t int, ev *eng.SchedEvent) {
			switch ev.Kind {
			case verifrt.KLock:
				locks[t][ev.Arg] = true
			case verifrt.KUnlock:
				delete(locks[t], ev.Arg)
			case verifrt.KVar:
				if ev.Write {
					c12NoteWrite(ev.Arg, locks[t])
				}
				evWrite := ev.Write || c12EverWritten[ev.Arg]
				for _, p := range acc[ev.Arg] {
					if p.thread == t || !(p.write || evWrite) {
						continue
					}
					common := !disjoint(p.locks, locks[t])
					if common && c12EverWritten[ev.Arg] {
						// a write to this variable (possibly seen only earlier in this process, while a
						// lazily filled global was still empty) holds the locks W; it is ordered with the
						// other thread's access only if that access holds one of them too
						if w := c12WriteLocks[ev.Arg]; disjoint(w, p.locks) || disjoint(w, locks[t]) {
							common = false
						}
					}
					if !common {
						name := "?"
						if ev.Arg < len(verifrt.Vars) {
							name = verifrt.Vars[ev.Arg]
						}
						add("race:var:"+name, "threads %d and %d access package variable %s without common lock, at least one writing (site %s)", p.thread, t, name, siteName(ev.Site))
					}
				}
				// keep one record per (thread, write) to bound the list
				dup := false
				for _, p := range acc[ev.Arg] {
					if p.thread == t && p.write == evWrite && len(p.locks) == len(locks[t]) {
						dup = true
					}
				}
				if !dup {
					ls := map[int]bool{}
					for l := range locks[t] {
						ls[l] = true
					}
					acc[ev.Arg] = append(acc[ev.Arg], accessRec{t, evWrite, ls})
				}
			case verifrt.KNodeWrite:
				if r.sharedSet[ev.Node] {
					add("write-to-shared-tree:"+siteName(ev.Site), "thread %d writes to a node of the shared input tree at %s", t, siteName(ev.Site))
				}
			}
		}
		switch level {
		case "A":
			// API level: the function entries of distiller.go (entry points, parsing, output assembly),
			// i.e. the moments between what an entry point does with the caller's Options and the
			// extraction proper; nothing below them
			s.IsPoint = func(ev *eng.SchedEvent) bool {
				return ev.Kind == verifrt.KEnter && ev.Site >= 0 && ev.Site < len(verifrt.Sites) && strings.HasPrefix(verifrt.Sites[ev.Site], "distiller.go:") && !strings.Contains(verifrt.Sites[ev.Site], ".func")
			}
		case "F":
			s.IsPoint = func(ev *eng.SchedEvent) bool { return true }
		default: // V: visible operations only
			s.IsPoint = func(ev *eng.SchedEvent) bool {
				switch ev.Kind {
				case verifrt.KVar:
					return written[ev.Arg] || ev.Write
				case verifrt.KNodeWrite:
					return r.sharedSet[ev.Node]
				case verifrt.KLock, verifrt.KUnlock:
					return true
				}
				return false
			}
		}
		s.RunThreads(ch, r.bodies)
		o.Execs++
		if level == "V" && o.Execs == len(sc.threads)+1 {
			// first scheduled execution: with many visible operations an unbounded search is
			// infeasible without state matching; fall back to a stated preemption bound
			tot := int64(0)
			for _, n := range s.Steps {
				tot += n
			}
			if tot > 14 {
				vbound := 2
				if eng.Tier == "thorough" {
					vbound = 3
				}
				ch.SetBound(vbound)
				vCapNote = fmt.Sprintf("%s: %d visible operations: V-level search limited to %d preemptions", sc.name, tot, vbound)
			}
		}
		if os.Getenv("C12_DEBUG") != "" {
			fmt.Printf("exec %d: points=%d problems=%d accvars=%d steps=%v\n", o.Execs, len(ch.Points), len(problems), len(acc), s.Steps)
		}
		for _, n := range s.Steps {
			if level == "V" {
				visibleOps += n
			}
		}
		if s.Failure != "" {
			if strings.HasPrefix(s.Failure, "stuck") {
				o.Skipped = s.Failure
			} else {
				add("scheduler:"+strings.SplitN(s.Failure, ":", 2)[0], "%s", s.Failure)
			}
		}
		for i, pi := range s.PanicOf {
			if pi != nil {
				add("panic-under-schedule:"+pi.Func, "thread %d panics under schedule %v: %s", i, compact(ch.Choices), pi.Value)
			}
		}
		for i := range r.results {
			if s.PanicOf[i] == nil && s.Failure == "" && r.results[i] != solo[i] {
				add(fmt.Sprintf("result-differs:thread%d:%s", i, diffField(solo[i], r.results[i])), "thread %d returns a different result than alone under schedule %v: %s", i, compact(ch.Choices), firstDiff(solo[i], r.results[i]))
			}
		}
		if optsSnapshot(r.sharedOpt) != r.optSnap {
			add("shared-options-modified", "the shared Options changed")
		}
		for k, d := range r.sharedDoc {
			if sn, _ := treeSnapshot(d); sn != r.treeSnap[k] {
				add("shared-tree-modified", "the shared input tree changed")
			}
		}
		if ch.Spent() > 0 {
			preempted++
		}
		if len(ch.Points) > maxPts {
			maxPts = len(ch.Points)
		}
		for _, p := range problems {
			if len(o.Viol) < 4 {
				o.Viol = append(o.Viol, p)
				if c.P["schedule"] == "" {
					c.P["schedule"] = compact(ch.Choices)
				}
			}
		}
	}, func(ch *eng.Chooser) bool { return len(o.Viol) == 0 && o.Skipped == "" }, eng.TimeUp)
	if err != nil {
		o.Viol = nil
		o.Skipped = "explorer: " + err.Error()
		return o
	}
	if st.Truncated && len(o.Viol) == 0 && o.Skipped == "" {
		o.Truncated = true
	}
	if vCapNote != "" {
		o.Notes = append(o.Notes, vCapNote)
	}
	o.Nontrivial = preempted > 0
	o.Class = fmt.Sprintf("%s %s-level points<=%d", sc.name, level, maxPts/100*100)
	if level == "V" {
		o.Notes = append(o.Notes, fmt.Sprintf("%s: V-level visible operations in total = %d (0 means one Mazurkiewicz class per start order), package variables written after init = %d", sc.name, visibleOps, len(written)))
	}
	return o
}

func compact(ch []int) string {
	// run-length form of a choice list: i:alt for non-zero choices
	var parts []string
	for i, c := range ch {
		if c != 0 {
			parts = append(parts, fmt.Sprintf("%d:%d", i, c))
		}
	}
	return "[" + strings.Join(parts, " ") + "] of " + fmt.Sprint(len(ch))
}

// ---- free-running -race pass -----------------------------------------------------------------

var rxRaceFrame = regexp.MustCompile(`(?m)^\s+(github\.com/markusmobius/go-domdistiller[^\s(]*)\(`)

func c12RacePass(c *eng.Case) *eng.Outcome {
	o := &eng.Outcome{}
	script := os.Getenv("VERIF_CHECK_SCRIPT")
	if script == "" {
		o.Skipped = "VERIF_CHECK_SCRIPT not set"
		return o
	}
	out, err := exec.Command(script, "build", "race").Output()
	if err != nil {
		o.Skipped = "race build failed: " + err.Error()
		return o
	}
	bin := strings.TrimSpace(string(out))
	cmd := exec.Command(bin, "-sub", "racepass", "-arg", c.Get("tier"))
	var so, se bytes.Buffer
	cmd.Stdout, cmd.Stderr = &so, &se
	CrossCorpus(c.Get("tier")) // make sure the file exists; the -race binary reads it instead of enumerating again
	cmd.Env = append(os.Environ(), "GORACE=halt_on_error=0 exitcode=0", "GOMAXPROCS=16", "VERIF_CROSS_DIR="+filepath.Dir(crossPath("quick")))
	rerr := cmd.Run()
	o.Execs = 1
	fmt.Sscan(strings.TrimSpace(so.String()), &o.Execs)
	text := se.String()
	if strings.Contains(text, "fatal error: concurrent map") {
		o.V("race-detector:fatal-concurrent-map-access", "the free-running pass died with a concurrent map access: %s", ora.Trunc(text, 1200))
	} else if strings.Contains(text, "DATA RACE") {
		fr := rxRaceFrame.FindAllStringSubmatch(text, 4)
		var names []string
		seen := map[string]bool{}
		for _, f := range fr {
			n := strings.TrimPrefix(f[1], "github.com/markusmobius/go-domdistiller/")
			if !seen[n] {
				seen[n] = true
				names = append(names, n)
			}
		}
		sort.Strings(names)
		o.V("race-detector:"+strings.Join(names, "+"), "the Go race detector reports a data race in the free-running pass: %s", ora.Trunc(text, 1500))
	} else if rerr != nil {
		o.Skipped = "race pass failed to run: " + rerr.Error() + " " + ora.Trunc(text, 300)
	}
	o.Nontrivial = true
	o.Class = "racepass"
	return o
}

// RacePassMain runs in the -race binary: the scenario bodies as really concurrent goroutines.
func RacePassMain(tier string) int {
	http.DefaultTransport = &stubTransport{body: c12Docs()["min"]}
	iters, par := 40, 8
	if tier == "thorough" {
		iters, par = 300, 16
	}
	calls := 0
	for _, sc := range c12Scenarios() {
		for it := 0; it < iters; it++ {
			// `par` independent runs at once; inside a run the threads share tree and options
			var wg sync.WaitGroup
			for rep := 0; rep < par; rep++ {
				r := c12Prepare(sc)
				for _, b := range r.bodies {
					b := b
					wg.Add(1)
					calls++
					go func() { defer wg.Done(); b() }()
				}
			}
			wg.Wait()
		}
	}
	// the X scenario over the cross corpus (file handed over by the parent)
	every := 16
	if tier == "thorough" {
		every = 8
	}
	var xs []c12Scenario
	for i, d := range CrossCorpus(tier) {
		if i%every == 0 {
			xs = append(xs, c12X(d.HTML, d.URL, d.Algo))
		}
	}
	for at := 0; at < len(xs); at += par {
		var wg sync.WaitGroup
		for k := at; k < at+par && k < len(xs); k++ {
			r := c12Prepare(xs[k])
			for _, b := range r.bodies {
				b := b
				wg.Add(1)
				calls++
				go func() { defer wg.Done(); b() }()
			}
		}
		wg.Wait()
	}
	fmt.Println(calls)
	return 0
}

func init() {
	eng.SubModes["racepass"] = RacePassMain
	eng.Register(&eng.Prop{
		ID:        "C12",
		DesignRef: "§5 C12",
		Rule: "closed drivers with forced sharing: S-a two Apply calls on one shared tree with one shared *Options (minimal page; rich page with table, figure, embed, pager), S-b two different rich pages with shared Options, S-c three threads (S-a + a LogEverything/PageNumber call), S-d Apply(tree) || ApplyForReader(bytes), S-e two logging calls, S-f two calls on a page whose paragraphs each sit in their own wrapper and whose root carries a legacy xmlns namespace prefix, S-h two ApplyForURL calls (different addresses, in-process transport) sharing one *Options, S-i the same with nil options, S-j two ApplyForReader calls on pages with non-ASCII text (decoding and normalisation in the byte entry point), S-g two pages that declare the OpenGraph namespace through prefix attributes with different values; X: the S-a shape (two calls, shared tree, shared Options, the document's own page URL and algorithm) for every 16th (thorough: 8th) document of the cross corpus (documents of C02-C04, C06-C10, C13-C20), V-level. " +
			"Each scenario is explored by a DFS over the cooperative scheduler's choice points: V-level (scheduling points only at visible operations: package variables ever written, writes to shared trees, lock operations) without preemption bound; A-level (scheduling points at the function entries of distiller.go only, i.e. between an entry point's handling of the caller's Options and the extraction proper) without preemption bound on S-h, S-i, S-j, S-a-min and S-e; F-level (every function entry, loop iteration, package-variable access and node write is a scheduling point) with preemption bound 1 (bound 2 for S-a-min in thorough; in quick the two rich scenarios are explored on every 4th of 48 shards). " +
			"Oracle on every schedule: each thread's canonical result equals its solo result; no pair of conflicting package-variable accesses from different threads without a common lock; no write to a node of a shared input tree; shared Options and trees unchanged; no panic, deadlock or horizon overrun. Plus one free-running pass of the same bodies (X scenarios included) under the Go race detector. " +
			"Non-trivial = shards whose executions include >= 1 preemption.",
		Enumerate:  c12Enumerate,
		Check:      c12Check,
		Prepare:    func(tier string) { CrossCorpus(tier) },
		StepBudget: 1 << 40,
		Bounds: func(tier string) map[string]any {
			if tier == "thorough" {
				return map[string]any{"F_level_preemptions": "1 (2 on S-a-min)", "V_level": "unbounded", "threads": "2-3", "shards": c12Shards}
			}
			return map[string]any{"F_level_preemptions": 1, "V_level": "unbounded", "threads": "2-3", "shards": c12Shards, "rich_scenarios_F_level": "every 4th shard"}
		},
		Assumptions: []string{"sequentially consistent interleavings at hook granularity; memory inside dependencies is covered only by the race-detector pass; go statements or channels inside the library are not modelled (reported by the instrumenter)"},
	})
}
