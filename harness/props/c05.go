package props

import (
	"fmt"
	"strconv"
	"strings"

	"github.com/go-shiori/dom"
	distiller "github.com/markusmobius/go-domdistiller"
	"golang.org/x/net/html"
	"verif/harness/eng"
	"verif/harness/ora"
)

// C05 — distilled HTML is inert.

func c05Skeleton() string {
	t := &ora.Tok{}
	pc := func() string { return "<p>" + t.W(21) + "</p>" }
	img := func() string {
		return "<img src=\"http://example.com/img/" + t.U() + ".jpg\" width=\"400\" height=\"300\">"
	}
	var sb strings.Builder
	sb.WriteString("<html><head><title>" + ora.DefaultTitle + "</title></head><body><div class=\"main\">")
	sb.WriteString(pc())
	sb.WriteString("<p>" + t.W(8) + " <b>" + t.W(2) + "</b> <a href=\"http://example.com/l/" + t.U() + "\">" + t.W(2) + "</a> " + t.W(9) + "</p>")
	sb.WriteString("<ul><li>" + t.W(9) + "</li><li>" + t.W(10) + " <i>" + t.W(1) + "</i></li></ul>")
	sb.WriteString(pc() + img() + pc())
	sb.WriteString("<picture><source srcset=\"http://example.com/img/" + t.U() + ".webp 1x\">" + img() + "</picture>" + pc())
	sb.WriteString("<figure>" + img() + "<figcaption>" + t.W(3) + " <a href=\"http://example.com/l/" + t.U() + "\">" + t.W(2) + "</a></figcaption></figure>" + pc())
	sb.WriteString("<figure>" + img() + "<figcaption>" + t.W(4) + "</figcaption></figure>" + pc())
	sb.WriteString("<video src=\"http://example.com/v/" + t.U() + ".mp4\" poster=\"http://example.com/v/" + t.U() + ".jpg\" width=\"400\" height=\"300\"><source src=\"http://example.com/v/" + t.U() + ".webm\"><track src=\"http://example.com/v/" + t.U() + ".vtt\"></video>" + pc())
	sb.WriteString("<table><caption>" + t.W(2) + "</caption><tr><th>" + t.W(1) + "</th><th>" + t.W(1) + "</th></tr><tr><td>" + t.W(1) + " <img src=\"http://example.com/img/" + t.U() + ".jpg\"></td><td><span>" + t.W(1) + "</span></td></tr><tr><td>" + t.W(1) + "</td><td>" + t.W(1) + "</td></tr></table>" + pc())
	sb.WriteString("<iframe src=\"http://www.youtube.com/embed/" + t.U() + "\" width=\"400\" height=\"300\"></iframe>" + pc())
	sb.WriteString("<iframe src=\"http://player.vimeo.com/video/1234567\" width=\"400\" height=\"300\"></iframe>" + pc())
	sb.WriteString("<blockquote class=\"twitter-tweet\"><p>" + t.W(6) + "</p><a href=\"https://twitter.com/someone/status/7654321\">" + t.W(2) + "</a></blockquote>" + pc())
	sb.WriteString("<blockquote><p>" + t.W(21) + "</p></blockquote>")
	sb.WriteString("<pre><code>" + t.W(6) + "</code></pre>")
	sb.WriteString("<h2>" + t.W(4) + "</h2>" + pc())
	sb.WriteString("<table><tr><td><p>" + t.W(20) + " <font color=\"red\">" + t.W(2) + "</font></p></td></tr></table>" + pc())
	sb.WriteString("</div></body></html>")
	return sb.String()
}

type taint struct {
	name string
	key  string // attribute key ("" for child insertion)
	val  string
	tag  string // child element to insert
	raw  bool   // set the key on the tree without the parser's lower-casing
}

var c05Taints = []taint{
	{name: "onclick", key: "onclick", val: "alert(1)"},
	{name: "onerror", key: "onerror", val: "x()"},
	{name: "ONLOAD", key: "ONLOAD", val: "x()", raw: true},
	{name: "ID-upper", key: "ID", val: "ident2", raw: true},
	{name: "Class-mixed", key: "Class", val: "cls2", raw: true},
	{name: "STYLE-upper", key: "STYLE", val: "color:blue", raw: true},
	{name: "id", key: "id", val: "ident1"},
	{name: "class", key: "class", val: "cls1"},
	{name: "style", key: "style", val: "color:red"},
	{name: "data-x", key: "data-x", val: "1"},
	{name: "srcdoc", key: "srcdoc", val: "<p>x</p>"},
	{name: "script", tag: "script"},
	{name: "style-el", tag: "style"},
	{name: "noscript-markup", tag: "noscript", val: "RAW:<img src=\"x.png\" onerror=\"alert(1)\" id=\"i1\" class=\"c1\" style=\"color:red\"><script>alert(2)</script><style>p{}</style>"},
	{name: "svg-xmp-markup", tag: "svg", val: "FOREIGN:xmp"},
	{name: "math-style-markup", tag: "math", val: "FOREIGN:style"},
	{name: "script-displayed", tag: "script", val: "display:block"},
	{name: "style-displayed", tag: "style", val: "display:inline"},
	// thorough only
	{name: "onmouseover", key: "onmouseover", val: "x()"},
	{name: "data-type", key: "data-type", val: "youtube"},
	{name: "unknown", key: "foo", val: "bar"},
	{name: "xmlns", key: "xmlns:og", val: "http://ogp.me/ns#"},
	{name: "on", key: "on", val: "x"},
}

const c05QuickTaints = 18

var c05Skel = c05Skeleton()

func c05Elements(doc *html.Node) []*html.Node {
	body := ora.Elements(doc, "body")[0]
	var els []*html.Node
	ora.Walk(body, func(n *html.Node) bool {
		if n.Type == html.ElementNode && n != body {
			els = append(els, n)
		}
		return true
	})
	return els
}

// every event-handler content attribute of the HTML standard (global, window-reflecting and
// element-specific), plus handlers added by newer platform features
var c05Handlers = strings.Fields(`onabort onafterprint onanimationcancel onanimationend onanimationiteration onanimationstart onauxclick onbeforecopy onbeforecut onbeforeinput onbeforematch onbeforepaste onbeforeprint onbeforetoggle onbeforeunload onblur oncancel oncanplay oncanplaythrough onchange onclick onclose oncommand oncontentvisibilityautostatechange oncontextlost oncontextmenu oncontextrestored oncopy oncuechange oncut ondblclick ondrag ondragend ondragenter ondragleave ondragover ondragstart ondrop ondurationchange onemptied onended onerror onfocus onfocusin onfocusout onformdata onfullscreenchange onfullscreenerror ongotpointercapture onhashchange oninput oninvalid onkeydown onkeypress onkeyup onlanguagechange onload onloadeddata onloadedmetadata onloadstart onlostpointercapture onmessage onmessageerror onmousedown onmouseenter onmouseleave onmousemove onmouseout onmouseover onmouseup onmousewheel onoffline ononline onpagehide onpagereveal onpageshow onpageswap onpaste onpause onplay onplaying onpointercancel onpointerdown onpointerenter onpointerleave onpointermove onpointerout onpointerover onpointerrawupdate onpointerup onpopstate onprogress onratechange onreadystatechange onrejectionhandled onreset onresize onscroll onscrollend onscrollsnapchange onscrollsnapchanging onsearch onsecuritypolicyviolation onseeked onseeking onselect onselectionchange onselectstart onslotchange onstalled onstorage onsubmit onsuspend ontimeupdate ontoggle ontouchcancel ontouchend ontouchmove ontouchstart ontransitioncancel ontransitionend ontransitionrun ontransitionstart onunhandledrejection onunload onvolumechange onwaiting onwebkitanimationend onwebkitanimationiteration onwebkitanimationstart onwebkitfullscreenchange onwebkitfullscreenerror onwebkittransitionend onwheel`)

func c05Enumerate(tier string, emit func(*eng.Case)) {
	crossEmit("C05", tier, "xinert", 1, emit)
	// every known event-handler attribute on every element (singles)
	nElAll := len(c05Elements(ora.Parse(c05Skel)))
	for hi := range c05Handlers {
		for e := 0; e < nElAll; e++ {
			if tier != "thorough" && e%3 != hi%3 {
				continue // quick: each handler on every third element (all elements covered across handlers)
			}
			emit(&eng.Case{Kind: "handler", P: map[string]string{"ops": fmt.Sprintf("%d:h%d", e, hi)}})
		}
	}
	nEl := len(c05Elements(ora.Parse(c05Skel)))
	nT := c05QuickTaints
	if tier == "thorough" {
		nT = len(c05Taints)
	}
	type op struct{ el, t int }
	var ops []op
	for e := 0; e < nEl; e++ {
		for t := 0; t < nT; t++ {
			ops = append(ops, op{e, t})
		}
	}
	str := func(o op) string { return fmt.Sprintf("%d:%d", o.el, o.t) }
	urls := []string{""}
	if tier == "thorough" {
		urls = append(urls, "http://example.com/a/b.html")
	}
	// singles also under a page URL that is not absolute (scheme forgotten by the caller)
	emit(&eng.Case{Kind: "taint", URL: "example.com/articles/x", P: map[string]string{"ops": ""}})
	for e := 0; e < nEl; e++ {
		for t := 0; t < nT; t++ {
			emit(&eng.Case{Kind: "taint", URL: "example.com/articles/x", P: map[string]string{"ops": fmt.Sprintf("%d:%d", e, t)}})
		}
	}
	for _, u := range urls {
		emit(&eng.Case{Kind: "taint", URL: u, P: map[string]string{"ops": ""}})
		for i := range ops {
			emit(&eng.Case{Kind: "taint", URL: u, P: map[string]string{"ops": str(ops[i])}})
		}
		for i := range ops {
			for j := i + 1; j < len(ops); j++ {
				if tier != "thorough" && (ops[i].t >= 13 || ops[j].t >= 13) && !(ops[i].t == 13 && ops[j].t < 11 || ops[j].t == 13 && ops[i].t < 11) {
					continue // quick: the displayed script/style children as singles only
				}
				if ops[i].el == ops[j].el && c05Taints[ops[i].t].key != "" && c05Taints[ops[i].t].key == c05Taints[ops[j].t].key {
					continue
				}
				emit(&eng.Case{Kind: "taint", URL: u, P: map[string]string{"ops": str(ops[i]) + "," + str(ops[j])}})
			}
		}
	}
}

func c05Context(n *html.Node) string {
	for p := n; p != nil; p = p.Parent {
		if p.Type != html.ElementNode {
			continue
		}
		switch p.Data {
		case "figcaption", "figure", "video", "picture", "pre", "ul", "iframe":
			return p.Data
		case "table":
			if isDataTableSrc(p) {
				return "data-table"
			}
			return "layout-table"
		case "blockquote":
			if ora.HasClass(p, "twitter-tweet") {
				return "twitter"
			}
			return "blockquote"
		}
	}
	return "text"
}

// c05Inert is the oracle: nothing in the distilled tree can run or restyle.
func c05Inert(o *eng.Outcome, res *distiller.Result, doc string) {
	ctxOut := func(n *html.Node) string {
		for p := n; p != nil; p = p.Parent {
			if ora.IsPlaceholder(p) && p != n {
				return "in-placeholder-" + ora.AttrV(p, "data-type")
			}
		}
		return c05Context(n)
	}
	ora.Walk(res.Node, func(n *html.Node) bool {
		if n.Type != html.ElementNode || n == res.Node {
			return true
		}
		if n.Data == "script" || n.Data == "style" {
			o.V("element:"+n.Data+":"+ctxOut(n), "<%s> element in the distilled HTML (%s); taints: %s", n.Data, ctxOut(n), doc)
		}
		ph := ora.IsPlaceholder(n)
		for _, a := range n.Attr {
			k := strings.ToLower(a.Key)
			bad := ""
			switch {
			case strings.HasPrefix(k, "on"):
				bad = "handler"
			case k == "id" || k == "style":
				bad = k
			case k == "class":
				if !(ph && a.Val == "embed-placeholder") {
					bad = "class"
				}
			case strings.HasPrefix(k, "data-"):
				if !(ph && (k == "data-type" || k == "data-id")) {
					bad = "data-attr"
				}
			}
			if bad != "" {
				o.V("attr:"+bad+":"+n.Data+":"+ctxOut(n), "attribute %s=%q on <%s> in the distilled HTML (%s); taints: %s", a.Key, a.Val, n.Data, ctxOut(n), doc)
			}
		}
		return true
	})
}

func c05Check(c *eng.Case) *eng.Outcome {
	o := &eng.Outcome{}
	if c.Kind == "xinert" {
		_, res, err, pi := ora.Run(c)
		if pi != nil {
			o.Skipped = pi.Sig()
			return o
		}
		if err != nil || res == nil || res.Node == nil {
			o.Skipped = "error"
			return o
		}
		c05Inert(o, res, c.Get("doc"))
		o.Nontrivial = len(ora.OutVisibleWords(res.Node)) >= 20
		o.Class = fmt.Sprintf("cross %s viol=%d", c.Get("src"), min(len(o.Viol), 2))
		return o
	}
	doc := ora.Parse(c05Skel)
	els := c05Elements(doc)
	var descs []string
	var hosts []*html.Node
	if ops := c.Get("ops"); ops != "" {
		for _, s := range strings.Split(ops, ",") {
			parts := strings.Split(s, ":")
			ei, _ := strconv.Atoi(parts[0])
			var t taint
			if strings.HasPrefix(parts[1], "h") {
				hi, _ := strconv.Atoi(parts[1][1:])
				if hi >= len(c05Handlers) {
					o.Skipped = "stale replay"
					return o
				}
				t = taint{name: c05Handlers[hi], key: c05Handlers[hi], val: "x()"}
			} else {
				ti, _ := strconv.Atoi(parts[1])
				if ti >= len(c05Taints) {
					o.Skipped = "stale replay (taints changed)"
					return o
				}
				t = c05Taints[ti]
			}
			if ei >= len(els) {
				o.Skipped = "stale replay (skeleton changed)"
				return o
			}
			el := els[ei]
			if t.tag != "" {
				if dom.IsVoidElement(el) || el.Data == "iframe" {
					o.Skipped = ""
					o.Class = "n/a"
					return o // cannot hold children; trivially fine
				}
				ch := dom.CreateElement(t.tag)
				if strings.HasPrefix(t.val, "FOREIGN:") {
					// foreign content holding an element that the serialiser treats as raw text:
					// <svg><xmp>&lt;img onerror=...&gt;</xmp></svg> as a parser would build it
					ch.Namespace = t.tag
					inner := &html.Node{Type: html.ElementNode, Data: t.val[8:], Namespace: t.tag}
					inner.AppendChild(dom.CreateTextNode("<img src=\"x.png\" onerror=\"alert(2)\" id=\"i2\" class=\"c2\"><script>alert(3)</script><div class=\"embed-placeholder\" onclick=\"alert(4)\" id=\"p4\" style=\"color:red\" data-evil=\"1\" data-type=\"youtube\" data-id=\"forged\">zzforged</div>"))
					ch.AppendChild(inner)
				} else if strings.HasPrefix(t.val, "RAW:") {
					// raw text child, as the HTML parser (scripting enabled) produces for <noscript>
					dom.AppendChild(ch, dom.CreateTextNode(t.val[4:]))
				} else {
					if t.val != "" {
						ch.Attr = append(ch.Attr, html.Attribute{Key: "style", Val: t.val})
					}
					dom.AppendChild(ch, dom.CreateTextNode("zzinert{}"))
				}
				el.AppendChild(ch)
			} else {
				el.Attr = append(el.Attr, html.Attribute{Key: t.key, Val: t.val})
			}
			hosts = append(hosts, el)
			descs = append(descs, t.name+" on "+el.Data+"@"+c05Context(el))
		}
	}
	c.P["doc"] = strings.Join(descs, " + ")
	res, err, pi := ora.Apply(doc, ora.Opts(c))
	if pi != nil {
		o.Skipped = pi.Sig()
		return o
	}
	if err != nil {
		o.Skipped = "error: " + err.Error()
		return o
	}
	c05Inert(o, res, c.Get("doc"))
	// non-trivial: every tainted host is represented in the output (by a word or URL marker)
	out := ora.Render(res.Node)
	present := len(hosts) > 0
	for _, h := range hosts {
		ok := false
		if ws := ora.Words(ora.AllText(h)); len(ws) > 0 && strings.Contains(out, ws[0]) {
			ok = true
		}
		for _, k := range []string{"src", "href", "srcset"} {
			if v := ora.AttrV(h, k); v != "" && strings.Contains(out, marker(strings.Fields(v)[0])) {
				ok = true
			}
		}
		if !ok {
			present = false
		}
	}
	o.Nontrivial = present
	o.Class = fmt.Sprintf("hosts-present=%v viol=%d", present, min(len(o.Viol), 2))
	return o
}

func init() {
	eng.Register(&eng.Prop{
		ID:        "C05",
		DesignRef: "§5 C05",
		Rule: "host document with every element kind that has its own rendering path (text blocks with inline markup, list, img, picture, two figures, video with source/track, data table with image, layout table with font, YouTube and Vimeo iframes, twitter blockquote, blockquote, pre, heading), all retained; " +
			"every element node of its body x every taint {onclick, onerror, raw upper-case ONLOAD, raw ID/Class/STYLE, id, class, style, data-x, srcdoc, child <script>, child <style>, a child <noscript> whose raw text is markup with handlers and scripts, svg>xmp and math>style children whose text is markup (an image with a handler, a script, and a forged embed-placeholder div carrying a handler, id, style and data attribute), the same script/style children carrying an inline display style} (quick; singles also under a non-absolute page URL) + {onmouseover, raw ID, data-type, unknown, xmlns:og, on} and a page URL (thorough); all singles and all pairs; plus each of the 137 event-handler attributes of the HTML standard on the elements (quick: every third element per handler; thorough: every element). Taints are applied to the parsed tree, so raw-case keys reach the library." + crossRule + " " +
			"Oracle on result.Node: no script/style element; no on* attribute; no id/style; class only 'embed-placeholder' on the placeholder div; data-* only data-type/data-id there. Non-trivial = every tainted host element is represented in the output.",
		Enumerate: c05Enumerate,
		Check:     c05Check,
		Prepare:   func(tier string) { CrossCorpus(tier) },
		Bounds: func(tier string) map[string]any {
			nT := c05QuickTaints
			if tier == "thorough" {
				nT = len(c05Taints)
			}
			return map[string]any{"elements": len(c05Elements(ora.Parse(c05Skel))), "taints": nT, "max_taints_per_doc": 2}
		},
	})
}
