package props

import (
	"bytes"
	"fmt"
	"io"
	"net/http"
	nurl "net/url"
	"os"
	"path/filepath"
	"strconv"
	"strings"
	"time"

	distiller "github.com/markusmobius/go-domdistiller"
	"golang.org/x/net/html"
	"golang.org/x/net/html/atom"
	"verif/harness/eng"
	"verif/harness/ora"
)

// C01 — every entry point is total: no panic, no hang, well-formed result.

// ---- sub-space 1/2: hand-built trees ---------------------------------------------------------

// node labels; text labels start with '#'
var c01Full = []string{"div", "p", "span", "a", "a-js", "font", "b", "ul", "li", "blockquote", "pre", "table", "tr", "td", "figure", "img", "figcaption",
	"noscript", "picture", "source", "iframe-yt", "h1", "br", "form", "select", "#short", "#long", "#ws", "#comment", "video", "a-js2", "section-sidebar", "tw"}
var c01Core = []string{"div", "p", "span", "a-js", "font", "li", "td", "figure", "img", "#short", "#long", "noscript"}

const c01Long = "one two three four five six seven eight nine ten eleven twelve thirteen fourteen fifteen sixteen seventeen eighteen nineteen twenty"

func c01Make(label string) *html.Node {
	el := func(tag string, attrs ...string) *html.Node {
		n := &html.Node{Type: html.ElementNode, Data: tag, DataAtom: atom.Lookup([]byte(tag))}
		for i := 0; i+1 < len(attrs); i += 2 {
			n.Attr = append(n.Attr, html.Attribute{Key: attrs[i], Val: attrs[i+1]})
		}
		return n
	}
	switch label {
	case "#short":
		return &html.Node{Type: html.TextNode, Data: "short text"}
	case "#long":
		return &html.Node{Type: html.TextNode, Data: c01Long}
	case "#ws":
		return &html.Node{Type: html.TextNode, Data: " \n "}
	case "#comment":
		return &html.Node{Type: html.CommentNode, Data: "a comment"}
	case "a":
		return el("a", "href", "http://example.com/x/2")
	case "a-js", "a-js2":
		return el("a", "href", "javascript:void(0)")
	case "img":
		return el("img", "src", "http://example.com/i.jpg", "width", "500", "height", "300")
	case "source":
		return el("source", "srcset", "http://example.com/i.webp 1x")
	case "iframe-yt":
		return el("iframe", "src", "http://www.youtube.com/embed/abc")
	case "video":
		return el("video", "src", "http://example.com/v.mp4")
	case "section-sidebar":
		return el("section", "class", "sidebar")
	case "tw":
		return el("blockquote", "class", "twitter-tweet")
	}
	return el(label)
}

func isLeafLabel(l string) bool {
	return strings.HasPrefix(l, "#") || l == "img" || l == "br" || l == "source"
}

// c01Trees enumerates all ordered labelled trees with exactly n nodes, encoded as a preorder
// list of (label index, child count).
type c01T struct {
	label int
	kids  []*c01T
}

func c01Trees(n int, labels []string, emit func(*c01T)) {
	// forests(n) : sequences of trees with n nodes in total
	var forests func(n int, emit func([]*c01T))
	var trees func(n int, emit func(*c01T))
	trees = func(n int, emit func(*c01T)) {
		for li, l := range labels {
			if isLeafLabel(l) {
				if n == 1 {
					emit(&c01T{label: li})
				}
				continue
			}
			forests(n-1, func(f []*c01T) { emit(&c01T{label: li, kids: f}) })
		}
	}
	forests = func(n int, emit func([]*c01T)) {
		if n == 0 {
			emit(nil)
			return
		}
		for k := 1; k <= n; k++ {
			trees(k, func(t *c01T) {
				forests(n-k, func(rest []*c01T) { emit(append([]*c01T{t}, rest...)) })
			})
		}
	}
	trees(n, emit)
}

func (t *c01T) enc(labels []string, sb *strings.Builder) {
	sb.WriteString(labels[t.label])
	if len(t.kids) > 0 {
		sb.WriteByte('(')
		for i, k := range t.kids {
			if i > 0 {
				sb.WriteByte(' ')
			}
			k.enc(labels, sb)
		}
		sb.WriteByte(')')
	}
}

// parseTreeSpec rebuilds html nodes from the textual encoding "div(p(#long) span)".
func parseTreeSpec(s string) *html.Node {
	pos := 0
	var parse func() *html.Node
	parse = func() *html.Node {
		start := pos
		for pos < len(s) && s[pos] != '(' && s[pos] != ')' && s[pos] != ' ' {
			pos++
		}
		n := c01Make(s[start:pos])
		if pos < len(s) && s[pos] == '(' {
			pos++
			for pos < len(s) && s[pos] != ')' {
				if s[pos] == ' ' {
					pos++
					continue
				}
				n.AppendChild(parse())
			}
			pos++
		}
		return n
	}
	return parse()
}

var c01Mutations = []string{"none", "empty-data", "upper-tag", "zero-atom", "wrong-atom", "svg-ns", "empty-attr-slice", "dup-attr", "empty-attr-key", "error-node", "doctype-node", "raw-node"}

func applyMutation(n *html.Node, m string) {
	switch m {
	case "empty-data":
		n.Data = ""
	case "upper-tag":
		n.Data = strings.ToUpper(n.Data)
	case "zero-atom":
		n.DataAtom = 0
	case "wrong-atom":
		n.DataAtom = atom.Script
	case "svg-ns":
		n.Namespace = "svg"
	case "empty-attr-slice":
		n.Attr = []html.Attribute{}
	case "dup-attr":
		n.Attr = append(n.Attr, html.Attribute{Key: "href", Val: "a"}, html.Attribute{Key: "href", Val: "javascript:b"}, html.Attribute{Key: "style", Val: "display:none"}, html.Attribute{Key: "style", Val: "display:block"})
	case "empty-attr-key":
		n.Attr = append(n.Attr, html.Attribute{Key: "", Val: "x"}, html.Attribute{Key: "class", Val: ""})
	case "error-node":
		n.Type = html.ErrorNode
	case "doctype-node":
		n.Type = html.DoctypeNode
	case "raw-node":
		n.Type = html.RawNode
	}
}

func nodeList(root *html.Node) []*html.Node {
	var out []*html.Node
	ora.Walk(root, func(n *html.Node) bool { out = append(out, n); return true })
	return out
}

// ---- sub-space 3: options --------------------------------------------------------------------

var c01URLs = []string{"", "http://example.com/a/b-2.html?p=2#f", "http://example.com", "http://example.com:8080/x/2", "http://user:pw@example.com/x/2", "http://[::1]/x/2",
	"http://ⱥ.com/a/1", "mailto:someone@example.com", "rel/only/2", "HTTP://EXAMPLE.COM/A/2", "http://example.com/a/[*!]/2", "http://example.com/a%2Fb/2", "http://example.com/a/2/", "//example.com/x", "http://example.com/?", "http://example.com/a/b/../2;x=1"}

// ---- sub-space 4: href pieces x page URLs ----------------------------------------------------

var (
	c01Sch  = []string{"http://", "HTTP://", "//", "", "javascript:", "mailto:", "data:"}
	c01Host = []string{"example.com", "EXAMPLE.COM", "ⱥ.com", "Ⱥ.COM", "İ.com", "Kelvin.com", "other.example", "user@example.com", "example.com:8080", ""}
	c01Path = []string{"/a/2", "", "/", "/a/b-2.html", "/2", "/a/[*!]", "/a/[*!]/2", "/a//2/", "/2012/01/2", "/tag/2", "/a/b%2F2", "/2.html", "/a/2/3", "/a/page/2/", "/a/b/2/a/b", "/a/b/c/2/b/c", "/a/b/2/a/b/c", "/reports/harbour/2/reports/harbour"}
	c01Qry  = []string{"", "?p=2", "?p=2&p=3", "?page=2&x=[*!]", "?p=[*!]", "?q=2", "?page=2", "?2"}
	c01Frag = []string{"", "#x"}
	c01Pg   = []string{"http://example.com/a/1", "http://ⱥ.com/a/1", "http://Ⱥ.COM/a/1", "http://example.com/a/b-1.html", "http://example.com/a/[*!]/1", "http://example.com/a?p=1", "http://example.com/a?page=1&x=[*!]",
		"http://example.com/", "http://example.com/a/1/", "http://İ.com/a/1", "http://example.com:8080/a/1", "http://example.com/2012/01/1", "http://example.com/a/b%2F1", "http://example.com/a/page/1/", "http://example.com/a/b", "http://example.com/a/b/c/", "http://example.com/reports/harbour"}
)

func c01PagerDoc(href string) string {
	t := &ora.Tok{}
	h := strings.ReplaceAll(href, "&", "&amp;")
	h2 := strings.Replace(h, "2", "3", 1)
	if strings.HasPrefix(href, "ALL:") {
		// every pager entry is a link, also the one for page 1
		h = strings.ReplaceAll(href[4:], "&", "&amp;")
		h2 = strings.Replace(h, "2", "3", 1)
		h1 := strings.Replace(h, "2", "1", 1)
		return "<html><head><title>" + ora.DefaultTitle + "</title></head><body><div><p>" + t.W(21) + "</p><p>" + t.W(22) + "</p></div><div class=\"pager\"><a href=\"" + h1 + "\">1</a> <a href=\"" + h + "\">2</a> <a href=\"" + h2 + "\">3</a></div></body></html>"
	}
	return "<html><head><title>" + ora.DefaultTitle + "</title></head><body><div><p>" + t.W(21) + "</p><p>" + t.W(22) + "</p></div><div class=\"pager\">1 <a href=\"" + h + "\">2</a> <a href=\"" + h2 + "\">3</a> <a href=\"" + h + "\">Next</a> <a href=\"" + h2 + "\">Prev</a></div></body></html>"
}

// ---- sub-space 5: byte tokens ----------------------------------------------------------------

var c01Bytes = []string{"<div>", "</div>", "<p>", "text words here ", "<a href=\"javascript:x\">", "</a>", "<span>", "<table>", "<td>", "<!--", "<script>", "<title>", "</title>", "<noscript>", "<svg>", "<template>",
	"<frameset>", "<select>", "<plaintext>", "\x00", "\xff\xfe", "<meta charset=\"utf-16\">", "<", "&", "<figure>", "<img src=x>", "</p>", "<font>", "<body>", "</html>", "<li>", "<math>", "soft\u00adhyphen cafe\u0301 words ", "<h1>soft\u00adhyphen title</h1>"}
var c01BytesCore = []int{0, 2, 3, 4, 5, 6, 8, 9, 10, 13, 24, 25}

// ---- sub-space 6: taints on the rich host document -------------------------------------------

var c01HostTaints = []struct {
	name string
	f    func(n *html.Node)
}{
	{"hidden", func(n *html.Node) { n.Attr = append(n.Attr, html.Attribute{Key: "hidden"}) }},
	{"display-none", func(n *html.Node) { n.Attr = append(n.Attr, html.Attribute{Key: "style", Val: "display:none"}) }},
	{"remove-children", func(n *html.Node) {
		for n.FirstChild != nil {
			n.RemoveChild(n.FirstChild)
		}
	}},
	{"aria-hidden", func(n *html.Node) { n.Attr = append(n.Attr, html.Attribute{Key: "aria-hidden", Val: "true"}) }},
	{"no-attrs", func(n *html.Node) { n.Attr = nil }},
	{"class-sidebar", func(n *html.Node) { n.Attr = append(n.Attr, html.Attribute{Key: "class", Val: "sidebar"}) }},
	{"display-block", func(n *html.Node) { n.Attr = append(n.Attr, html.Attribute{Key: "style", Val: "display:block"}) }},
	{"contenteditable", func(n *html.Node) { n.Attr = append(n.Attr, html.Attribute{Key: "contenteditable", Val: "true"}) }},
	// class names that match both a "negative" and a "positive" word list of the link scorers
	{"class-entry-footer", func(n *html.Node) { n.Attr = append(n.Attr, html.Attribute{Key: "class", Val: "entry-footer"}) }},
	{"id-content-sidebar", func(n *html.Node) { n.Attr = append(n.Attr, html.Attribute{Key: "id", Val: "content-sidebar"}) }},
	{"class-pagination-comment", func(n *html.Node) {
		n.Attr = append(n.Attr, html.Attribute{Key: "class", Val: "pagination comment-nav"})
	}},
}

// ---- sub-space 7: title tokens ---------------------------------------------------------------

var c01TitleToks = []string{"Word", "Two words here", "A longer run of plain words for the title", " ", ":", ": ", "：", " - ", "-", "—", " | ", "|", "«", " » ", "/", " / ", "\\", " > ", "'", "\u00a0", ".", ",", "?", "(", ")", "·", "#", ".com", "&amp;"}

// ---- enumeration -----------------------------------------------------------------------------

func c01Enumerate(tier string, emit func(*eng.Case)) {
	thorough := tier == "thorough"
	// 10: the documents of the other checks: without URL, and with a URL (their own or a default)
	// under each pagination algorithm; every document also through the byte entry point
	crossEmit("C01", tier, "cross", 1, func(c *eng.Case) {
		u := c.URL
		if u == "" {
			u = "http://example.com/a/b/story.html"
		}
		for algo := 0; algo < 2; algo++ {
			emit(&eng.Case{Kind: "cross", HTML: c.HTML, URL: u, Algo: algo, Flags: 30, P: c.P})
		}
		emit(&eng.Case{Kind: "cross", HTML: c.HTML, P: c.P})
		emit(&eng.Case{Kind: "bytes", HTML: c.HTML, URL: u, P: c.P})
	})
	// 1: trees x roots
	nFull, nCore := 3, 4
	if thorough {
		nFull, nCore = 4, 5
	}
	treeCases := func(labels []string, minN, maxN int, setName string) {
		for n := minN; n <= maxN; n++ {
			c01Trees(n, labels, func(t *c01T) {
				var sb strings.Builder
				t.enc(labels, &sb)
				spec := sb.String()
				for r := 0; r < n; r++ {
					for _, mode := range []string{"attached", "detached"} {
						emit(&eng.Case{Kind: "tree", P: map[string]string{"tree": spec, "root": strconv.Itoa(r), "mode": mode, "doc": fmt.Sprintf("tree %s root#%d %s", spec, r, mode)}})
					}
				}
				emit(&eng.Case{Kind: "tree", P: map[string]string{"tree": spec, "root": "0", "mode": "document", "doc": fmt.Sprintf("tree %s as document", spec)}})
				emit(&eng.Case{Kind: "tree", P: map[string]string{"tree": spec, "root": "0", "mode": "bare-document", "doc": fmt.Sprintf("tree %s under a document node without html/body", spec)}})
			})
		}
	}
	treeCases(c01Full, 1, nFull, "full")
	treeCases(c01Core, nFull+1, nCore, "core")
	// 2: odd hand-built nodes (mutation on every node of every small tree)
	maxMut := 2
	if thorough {
		maxMut = 3
	}
	for n := 1; n <= maxMut; n++ {
		labels := c01Full
		if n == 3 {
			labels = c01Core
		}
		c01Trees(n, labels, func(t *c01T) {
			var sb strings.Builder
			t.enc(labels, &sb)
			spec := sb.String()
			for at := 0; at < n; at++ {
				for _, m := range c01Mutations[1:] {
					for _, mode := range []string{"attached", "detached"} {
						emit(&eng.Case{Kind: "odd", P: map[string]string{"tree": spec, "root": "0", "mode": mode, "mut": m, "at": strconv.Itoa(at), "doc": fmt.Sprintf("tree %s %s, node#%d %s", spec, mode, at, m)}})
					}
				}
			}
		})
	}
	// 3: options cross-product on small shapes
	flagSets := []uint{0, 2, 4, 8, 16, 30}
	if thorough {
		flagSets = nil
		for f := uint(0); f < 16; f++ {
			flagSets = append(flagSets, f<<1)
		}
	}
	maxOpt := 2
	for n := 1; n <= maxOpt; n++ {
		c01Trees(n, c01Full, func(t *c01T) {
			var sb strings.Builder
			t.enc(c01Full, &sb)
			spec := sb.String()
			emit(&eng.Case{Kind: "opts", Nil: true, P: map[string]string{"tree": spec, "root": "0", "mode": "attached", "doc": "nil options, tree " + spec}})
			for _, u := range c01URLs {
				for _, fl := range flagSets {
					for skip := 0; skip < 2; skip++ {
						for algo := 0; algo < 2; algo++ {
							if !thorough && fl != 0 && fl != 30 && (algo == 1 || skip == 1) {
								continue
							}
							emit(&eng.Case{Kind: "opts", URL: u, Flags: fl, Skip: skip == 1, Algo: algo,
								P: map[string]string{"tree": spec, "root": "0", "mode": "attached", "doc": fmt.Sprintf("tree %s url=%q flags=%d skip=%v algo=%d", spec, u, fl, skip == 1, algo)}})
						}
					}
				}
			}
		})
	}
	// 4: href pieces x page URLs x algorithms
	def := []int{0, 0, 0, 0, 0}
	dims := []int{len(c01Sch), len(c01Host), len(c01Path), len(c01Qry), len(c01Frag)}
	maxDev := 2
	if thorough {
		maxDev = 5
	}
	var rec func(i int, v []int, dev int)
	rec = func(i int, v []int, dev int) {
		if i == len(dims) {
			href := c01Sch[v[0]] + c01Host[v[1]] + c01Path[v[2]] + c01Qry[v[3]] + c01Frag[v[4]]
			for _, pg := range c01Pg {
				for algo := 0; algo < 2; algo++ {
					emit(&eng.Case{Kind: "pager", HTML: c01PagerDoc(href), URL: pg, Algo: algo, P: map[string]string{"doc": fmt.Sprintf("pager href=%q page=%q algo=%d", href, pg, algo)}})
					if v[2] != 0 && v[0] == 0 && v[1] == 0 {
						emit(&eng.Case{Kind: "pager", HTML: c01PagerDoc("ALL:" + href), URL: pg, Algo: algo, P: map[string]string{"doc": fmt.Sprintf("pager (all entries linked) href=%q page=%q algo=%d", href, pg, algo)}})
					}
				}
			}
			return
		}
		for x := 0; x < dims[i]; x++ {
			d := dev
			if x != def[i] {
				d++
			}
			if d > maxDev {
				continue
			}
			v[i] = x
			rec(i+1, v, d)
		}
	}
	rec(0, make([]int, len(dims)), 0)
	// 6: every element of the rich host document (all rendering paths) made invisible or odd
	nEl := len(c05Elements(ora.Parse(c05Skel)))
	nTaint := len(c01HostTaints)
	for e := 0; e < nEl; e++ {
		for t := 0; t < nTaint; t++ {
			emit(&eng.Case{Kind: "host", P: map[string]string{"ops": fmt.Sprintf("%d:%d", e, t), "doc": ""}})
			emit(&eng.Case{Kind: "host", URL: "http://example.com/a/2", Algo: 1, Flags: 30, P: map[string]string{"ops": fmt.Sprintf("%d:%d", e, t), "doc": ""}})
			emit(&eng.Case{Kind: "host", URL: "http://example.com/l/2", Algo: 0, P: map[string]string{"ops": fmt.Sprintf("%d:%d", e, t), "doc": ""}})
			if !thorough && t >= 3 {
				continue
			}
			for e2 := e + 1; e2 < nEl; e2++ {
				for t2 := 0; t2 < nTaint; t2++ {
					if !thorough && t2 >= 3 {
						continue
					}
					emit(&eng.Case{Kind: "host", P: map[string]string{"ops": fmt.Sprintf("%d:%d,%d:%d", e, t, e2, t2), "doc": ""}})
				}
			}
		}
	}
	// 7: <title> strings over separator-like tokens (title heuristics index into the string)
	tl := 3
	if thorough {
		tl = 4
	}
	tt := make([]int, len(c01TitleToks))
	for i := range tt {
		tt[i] = i
	}
	seqEnum(tt, tl, func(seq []int) {
		if len(seq) == 0 {
			return
		}
		var sb strings.Builder
		for _, x := range seq {
			sb.WriteString(c01TitleToks[x])
		}
		title := sb.String()
		for _, h1 := range []string{"", "same"} {
			emit(&eng.Case{Kind: "title", P: map[string]string{"title": title, "h1": h1, "doc": fmt.Sprintf("<title>%s</title> h1=%s", title, h1)}})
		}
	})
	// 11: attribute values that the library slices, splits or matches (data URLs, srcset lists,
	// query strings): every string of <= 3 / <= 4 tokens in every URL-carrying position
	vl := 3
	if thorough {
		vl = 4
	}
	vt := make([]int, len(c01ValToks))
	for i := range vt {
		vt[i] = i
	}
	seqEnum(vt, vl, func(seq []int) {
		if len(seq) == 0 {
			return
		}
		var sb strings.Builder
		for _, x := range seq {
			sb.WriteString(c01ValToks[x])
		}
		v := sb.String()
		for pi := range c01ValPositions {
			for _, u := range []string{"", "http://example.com/a/2"} {
				emit(&eng.Case{Kind: "attrval", URL: u, Algo: 1, P: map[string]string{"val": v, "pos": strconv.Itoa(pi), "doc": fmt.Sprintf("%s = %q", c01ValPositions[pi].name, v)}})
			}
		}
	})
	// 9: scale sweep: one document with n distinct inline styles, classes, ids and link targets for n around
	// every power of two up to 8192 (capacity limits of caches and tables sit at such boundaries)
	for e := 0; e <= 13; e++ {
		for _, d := range []int{-1, 0, 1} {
			n := (1 << e) + d
			if n < 1 || (tier != "thorough" && n > 4100) {
				continue
			}
			emit(&eng.Case{Kind: "scale", URL: "http://example.com/a/2", P: map[string]string{"n": strconv.Itoa(n), "doc": fmt.Sprintf("document with %d distinct style/class/id/href values", n)}})
		}
	}
	// 8: the file and URL entry points, including their failure paths
	for _, body := range []string{"", "<p>x</p>", "<html><body><p>" + c01Long + "</p></body></html>", "\x00\x01\x02", "<title>"} {
		for _, mode := range []string{"file-ok", "file-missing", "file-dir", "url-ok", "url-not-html", "url-no-content-type", "url-transport-error", "url-bad-url", "url-relative", "url-empty-body-204"} {
			for _, nilOpts := range []bool{true, false} {
				emit(&eng.Case{Kind: "io", HTML: body, Nil: nilOpts, Flags: 30, P: map[string]string{"mode": mode, "doc": fmt.Sprintf("%s body=%q nil-options=%v", mode, body, nilOpts)}})
			}
		}
	}
	// 5: byte strings for ApplyForReader
	all := make([]int, len(c01Bytes))
	for i := range all {
		all[i] = i
	}
	lFull, lCore := 3, 4
	if thorough {
		lFull, lCore = 4, 5
	}
	emitBytes := func(seq []int) {
		var sb strings.Builder
		for _, s := range seq {
			sb.WriteString(c01Bytes[s])
		}
		emit(&eng.Case{Kind: "bytes", HTML: sb.String(), P: map[string]string{"doc": fmt.Sprintf("ApplyForReader(%q)", sb.String())}})
		emit(&eng.Case{Kind: "bytes", HTML: sb.String(), URL: "http://example.com/a/2", Algo: 1, P: map[string]string{"doc": fmt.Sprintf("ApplyForReader(%q) with URL, PageNumber", sb.String())}})
	}
	seqEnum(all, lFull, emitBytes)
	seqEnum(c01BytesCore, lCore, func(seq []int) {
		if len(seq) > lFull {
			emitBytes(seq)
		}
	})
}

// ---- execution -------------------------------------------------------------------------------

type ioTransport struct{ mode, body string }

func (t *ioTransport) RoundTrip(r *http.Request) (*http.Response, error) {
	if t.mode == "url-transport-error" {
		return nil, fmt.Errorf("stub: connection refused")
	}
	h := http.Header{"Content-Type": []string{"text/html; charset=utf-8"}}
	status := 200
	switch t.mode {
	case "url-not-html":
		h = http.Header{"Content-Type": []string{"application/pdf"}}
	case "url-no-content-type":
		h = http.Header{}
	case "url-empty-body-204":
		status = 204
	}
	return &http.Response{StatusCode: status, Status: fmt.Sprint(status), Proto: "HTTP/1.1", ProtoMajor: 1, ProtoMinor: 1, Header: h,
		Body: io.NopCloser(strings.NewReader(t.body)), Request: r, ContentLength: int64(len(t.body))}, nil
}

// c01ValToks: pieces of attribute values around the places where the library indexes into them.
var c01ValToks = []string{"data:", "image/png", ";base64", ",", "AAAA", "=", " ", "http://example.com", "//", "/i.png", "?", "#", "%", " 2x", "javascript:", "\n"}

var c01ValPositions = []struct {
	name string
	gen  func(v string) string
}{
	{"img[src]", func(v string) string { return "<img src=\"" + v + "\" width=\"400\" height=\"300\">" }},
	{"img[srcset]", func(v string) string {
		return "<img src=\"http://example.com/i.png\" srcset=\"" + v + "\" width=\"400\" height=\"300\">"
	}},
	{"picture>source[srcset]", func(v string) string {
		return "<picture><source srcset=\"" + v + "\"><img src=\"http://example.com/i.png\" width=\"400\" height=\"300\"></picture>"
	}},
	{"figure>img[src]", func(v string) string {
		return "<figure><img src=\"" + v + "\" width=\"400\" height=\"300\"><figcaption>cap words here</figcaption></figure>"
	}},
	{"img[data-src]", func(v string) string {
		return "<img class=\"lazy\" data-src=\"" + v + "\" width=\"400\" height=\"300\">"
	}},
	{"a[href]", func(v string) string {
		return "<p>some words around <a href=\"" + v + "\">the link text</a> and after it</p>"
	}},
	{"pager a[href]", func(v string) string {
		return "<div class=\"pagination\"><a href=\"/a/1\">1</a> 2 <a href=\"" + v + "\">3</a> <a href=\"" + v + "\">Next</a></div>"
	}},
	{"video[poster]+source[src]", func(v string) string {
		return "<video poster=\"" + v + "\" width=\"400\" height=\"300\"><source src=\"" + v + "\"></video>"
	}},
	{"iframe[src]", func(v string) string { return "<iframe src=\"" + v + "\"></iframe>" }},
	{"object[data]", func(v string) string { return "<object data=\"" + v + "\"></object>" }},
	{"td img[src]", func(v string) string {
		return "<table><tr><th>a</th><th>b</th></tr><tr><td><img src=\"" + v + "\"></td><td>d</td></tr></table>"
	}},
}

func c01Opts(c *eng.Case) *distiller.Options {
	if c.Nil {
		return nil
	}
	o := &distiller.Options{LogFlags: distiller.LogFlag(c.Flags), SkipPagination: c.Skip, PaginationAlgo: distiller.PaginationAlgo(c.Algo)}
	if c.URL != "" {
		if u, err := nurl.Parse(c.URL); err == nil {
			o.OriginalURL = u
		} else {
			o.OriginalURL = &nurl.URL{Scheme: "http", Host: "example.com", Path: c.URL}
		}
	}
	return o
}

func c01Check(c *eng.Case) *eng.Outcome {
	o := &eng.Outcome{}
	var res *distiller.Result
	var err error
	var pi *eng.PanicInfo
	switch c.Kind {
	case "bytes":
		pi = eng.Protect(func() { res, err = distiller.ApplyForReader(bytes.NewReader([]byte(c.HTML)), c01Opts(c)) })
	case "pager", "cross":
		doc := ora.Parse(c.HTML)
		pi = eng.Protect(func() { res, err = distiller.Apply(doc, c01Opts(c)) })
	case "scale":
		n, _ := strconv.Atoi(c.Get("n"))
		var sb strings.Builder
		sb.WriteString("<html><head><title>" + ora.DefaultTitle + "</title></head><body><div>")
		for i := 0; i < n; i++ {
			fmt.Fprintf(&sb, "<p style=\"margin-left:%dpx\" class=\"c%d\" id=\"i%d\">word%d text <span style=\"color:#%06x\">s%d</span> <a href=\"/a/%d?k=%d\">l%d</a></p>", i, i, i, i, i, i, i, i, i)
		}
		sb.WriteString("</div></body></html>")
		doc := ora.Parse(sb.String())
		pi = eng.Protect(func() { res, err = distiller.Apply(doc, c01Opts(c)) })
	case "io":
		mode := c.Get("mode")
		switch {
		case strings.HasPrefix(mode, "file"):
			dir, derr := os.MkdirTemp("", "c01io-")
			if derr != nil {
				o.Skipped = "tempdir"
				return o
			}
			defer os.RemoveAll(dir)
			path := filepath.Join(dir, "in.html")
			switch mode {
			case "file-ok":
				os.WriteFile(path, []byte(c.HTML), 0o644)
			case "file-dir":
				path = dir
			}
			pi = eng.Protect(func() { res, err = distiller.ApplyForFile(path, c01Opts(c)) })
		default:
			old := http.DefaultTransport
			http.DefaultTransport = &ioTransport{mode: mode, body: c.HTML}
			u := "http://example.com/a/2"
			switch mode {
			case "url-bad-url":
				u = "http://exa mple.com/%zz"
			case "url-relative":
				u = "a/2"
			}
			pi = eng.Protect(func() { res, err = distiller.ApplyForURL(u, 5*time.Minute, c01Opts(c)) })
			http.DefaultTransport = old
		}
	case "attrval":
		t := &ora.Tok{}
		idx, _ := strconv.Atoi(c.Get("pos"))
		if idx >= len(c01ValPositions) {
			o.Skipped = "stale replay"
			return o
		}
		v := strings.NewReplacer("&", "&amp;", "\"", "&quot;").Replace(c.Get("val"))
		doc := ora.Parse("<html><head><title>" + ora.DefaultTitle + "</title></head><body><div><p>" + t.W(22) + "</p>" + c01ValPositions[idx].gen(v) + "<p>" + t.W(21) + "</p><p>" + t.W(20) + "</p></div></body></html>")
		pi = eng.Protect(func() { res, err = distiller.Apply(doc, c01Opts(c)) })
	case "title":
		t := &ora.Tok{}
		h1 := ""
		if c.Get("h1") == "same" {
			h1 = "<h1>" + c.Get("title") + "</h1>"
		}
		doc := ora.Parse("<html><head><title>" + c.Get("title") + "</title></head><body><div>" + h1 + "<p>" + t.W(22) + "</p><p>" + t.W(21) + "</p></div></body></html>")
		pi = eng.Protect(func() { res, err = distiller.Apply(doc, c01Opts(c)) })
	case "host":
		doc := ora.Parse(c05Skel)
		els := c05Elements(doc)
		var d []string
		for _, op := range strings.Split(c.Get("ops"), ",") {
			var e, t int
			fmt.Sscanf(op, "%d:%d", &e, &t)
			if e >= len(els) || t >= len(c01HostTaints) {
				o.Skipped = "stale replay"
				return o
			}
			d = append(d, c01HostTaints[t].name+" on <"+els[e].Data+">@"+c05Context(els[e]))
			c01HostTaints[t].f(els[e])
		}
		c.P["doc"] = "host document, " + strings.Join(d, " + ")
		pi = eng.Protect(func() { res, err = distiller.Apply(doc, c01Opts(c)) })
	default:
		tree := parseTreeSpec(c.Get("tree"))
		nodes := nodeList(tree)
		if m := c.Get("mut"); m != "" {
			at, _ := strconv.Atoi(c.Get("at"))
			if at < len(nodes) {
				applyMutation(nodes[at], m)
			}
		}
		ri, _ := strconv.Atoi(c.Get("root"))
		if ri >= len(nodes) {
			ri = 0
		}
		var root *html.Node
		switch c.Get("mode") {
		case "attached", "document":
			doc := &html.Node{Type: html.DocumentNode}
			h := c01Make("html")
			b := c01Make("body")
			doc.AppendChild(h)
			h.AppendChild(c01Make("head"))
			h.AppendChild(b)
			b.AppendChild(tree)
			root = nodes[ri]
			if c.Get("mode") == "document" {
				root = doc
			}
		case "bare-document":
			doc := &html.Node{Type: html.DocumentNode}
			doc.AppendChild(tree)
			root = doc
		default: // detached: the subtree alone, no parent
			root = nodes[ri]
			if root.Parent != nil {
				root.Parent.RemoveChild(root)
			}
		}
		pi = eng.Protect(func() { res, err = distiller.Apply(root, c01Opts(c)) })
	}
	switch {
	case pi != nil:
		o.V(pi.Sig(), "%s: %s", c.Get("doc"), pi.Value)
		o.Class = "panic"
	case err != nil:
		o.Class = "error"
	case res == nil:
		o.V("nil-result", "nil result and nil error; %s", c.Get("doc"))
	case res.Node == nil || res.Node.Type != html.ElementNode || res.Node.Data != "div":
		o.V("malformed-result", "result.Node is not a div element; %s", c.Get("doc"))
	default:
		o.Class = "ok:" + c.Kind
	}
	o.Nontrivial = c.Kind != "tree" || c.Get("mode") != "document" || c.URL != ""
	return o
}

func init() {
	eng.Register(&eng.Prop{
		ID:        "C01",
		DesignRef: "§5 C01",
		Rule: "five sub-spaces, each complete to its bound. (1) all ordered trees of hand-built nodes with <= 3 (quick) / <= 4 (thorough) nodes over 33 labels and of 4 / 5 nodes over 12 core labels, x every node as root attached (inside document>html>body) and detached, plus the document node and a bare document; " +
			"(2) every tree of <= 2 / <= 3 nodes x every node x 11 field mutations (empty Data, upper-case tag, zero/wrong DataAtom, svg namespace, empty Attr slice, duplicate/empty attribute keys, Error/Doctype/Raw node types); (3) trees of <= 2 nodes x nil options and 16 URLs (IPv6, userinfo, non-ASCII host, mailto, relative, placeholder literal, escaped slash, ...) x log-flag sets x SkipPagination x algorithm; " +
			"(4) a pager whose hrefs are scheme x host x path x query x fragment pieces with <= 2 pieces off default (quick) / full product (thorough) x 14 page URLs (case-folding hosts, placeholder literals, escapes) x both algorithms; (6) every element of the rich host document of C05 (all rendering paths) x 11 taints (hidden, display:none, children removed, aria-hidden, attributes removed, class=sidebar, display:block, contenteditable, class/id values matching both word lists of the link scorers), without URL and with URL under each pagination algorithm, singles and pairs (quick: pairs over the first 3 taints); (9) a scale sweep: one document with n distinct inline styles, classes, ids and link targets for n = 2^e-1, 2^e, 2^e+1 up to 4097 (quick) / 8193 (thorough); (8) ApplyForFile on an existing/missing/directory path and ApplyForURL through a stub transport (HTML, non-HTML, missing content type, transport error, malformed and relative URL, 204) x 5 bodies x nil/non-nil options; (7) every <title> of <= 3 (quick) / <= 4 (thorough) tokens over 29 word/separator tokens (ASCII and full-width colon, dashes, pipes, guillemets, slashes, NBSP, punctuation), with and without an equal h1; (5) all ApplyForReader inputs of <= 3 / <= 4 tokens over 32 byte tokens and 4 / 5 over 12 core tokens, with and without URL; (11) every string of <= 3 / <= 4 tokens over 16 attribute-value tokens (data:, a mime type, ;base64, comma, payload, =, space, absolute prefix, //, path, ?, #, %, a srcset descriptor, javascript:, newline) in 11 URL-carrying positions (img src/srcset/data-src, picture source, figure img, a href, pager hrefs, video poster + source, iframe, object, image in a data-table cell), with and without page URL; (10)" + crossRule + " (there: without URL, with URL under each algorithm and all log flags, and through ApplyForReader) " +
			"Oracle: no panic, step budget (2e7 hook events) not exceeded, worker process survives, and the call returns an error or a result whose Node is a div element. Non-trivial = anything but a plain document root with default options.",
		Enumerate:        c01Enumerate,
		Check:            c01Check,
		Prepare:          func(tier string) { CrossCorpus(tier) },
		PanicIsViolation: true,
		Bounds: func(tier string) map[string]any {
			if tier == "thorough" {
				return map[string]any{"tree_nodes_full": 4, "tree_nodes_core": 5, "mutation_tree_nodes": 3, "href_piece_deviations": "all", "byte_tokens_full": 4, "byte_tokens_core": 5, "step_budget": eng.DefaultBudget}
			}
			return map[string]any{"tree_nodes_full": 3, "tree_nodes_core": 4, "mutation_tree_nodes": 2, "href_piece_deviations": 2, "byte_tokens_full": 3, "byte_tokens_core": 4, "step_budget": eng.DefaultBudget}
		},
		Assumptions: []string{"stack exhaustion by pathological nesting depth is outside the bound"},
	})
}
