package props

import (
	"fmt"
	"io"
	"net/http"
	nurl "net/url"
	"strings"
	"time"

	distiller "github.com/markusmobius/go-domdistiller"
	"github.com/markusmobius/go-domdistiller/verifrt"
	"golang.org/x/net/html"
	"verif/harness/eng"
	"verif/harness/ora"
)

// C10 — caller-owned arguments are never modified.

var c10Atoms = append(append([]ora.Atom{}, c09Atoms...),
	ora.Atom{Name: "FONT", Gen: func(t *ora.Tok) string {
		return "<p>" + t.W(12) + " <font color=\"red\" size=\"2\">" + t.W(3) + "</font> " + t.W(8) + "</p>"
	}},
	ora.Atom{Name: "ATTRS", Gen: func(t *ora.Tok) string {
		return "<p id=\"p1\" class=\"c1\" style=\"color:red\" onclick=\"x()\">" + t.W(20) + " <a id=\"a1\" class=\"c2\" href=\"rel/" + t.U() + ".html\">" + t.W(2) + "</a></p>"
	}},
	ora.Atom{Name: "VIDs", Gen: func(t *ora.Tok) string {
		return "<video src=\"v/" + t.U() + ".mp4\" poster=\"v/" + t.U() + ".jpg\" id=\"vid\" class=\"player\"><source src=\"v/" + t.U() + ".webm\"><track src=\"v/" + t.U() + ".vtt\"></video>"
	}},
	ora.Atom{Name: "PGR", Gen: func(t *ora.Tok) string {
		return "<div class=\"pagination\"><a href=\"/fetched/page-1.html\">1</a> 2 <a href=\"/fetched/page-3.html\">3</a> <a href=\"/fetched/page-3.html\">Next</a></div>"
	}},
	// page numbers with non-breaking spaces and a label around them (text that pagination code reads)
	ora.Atom{Name: "PGRn", Gen: func(t *ora.Tok) string {
		return "<div class=\"pager\">Page:\u00a01\u00a0<a href=\"/fetched/page-2.html\">2</a>\u00a0of\u00a03 <a href=\"/fetched/page-3.html\">3</a> \u00a0next\u00a0page\u00a0</div>"
	}},
	ora.Atom{Name: "QREF", Gen: func(t *ora.Tok) string {
		return "<p>" + t.W(14) + " <a href=\"?x=" + t.U() + "\">" + t.W(2) + "</a> <a href=\"//cdn.example.net/" + t.U() + "\">" + t.W(1) + "</a> " + t.W(6) + "</p><img src=\"?img=" + t.U() + "\" width=\"400\" height=\"300\"><div class=\"pagination\"><a href=\"?page=1\">1</a> 2 <a href=\"?page=3\">3</a></div>"
	}},
	ora.Atom{Name: "BYL", Gen: func(t *ora.Tok) string {
		return "<div><span class=\"byline-name\">" + t.W(2) + "<script>var a=1;</script></span></div><div class=\"dateline\">" + t.W(2) + "<style>.d{}</style></div>"
	}},
	ora.Atom{Name: "SCH", Gen: func(t *ora.Tok) string {
		return "<div itemscope itemtype=\"http://schema.org/Article\"><span itemprop=\"headline\">" + t.W(3) + "</span><a rel=\"author\" href=\"/a\">" + t.W(2) + "</a><img itemprop=\"image\" src=\"i/" + t.U() + ".jpg\"></div>"
	}},
)

var c10Alphabet = []string{"FONT", "JS1", "NOS", "PIC", "PICf", "LAZY", "LAZYs", "YT", "TW", "VIDs", "TBLd", "TBLi", "ATTRS", "FIGl", "IMGrel", "PGR", "SCH", "HIDs", "BR", "QREF", "BYL", "PGRn"}

const c10Fetch = "http://example.com/fetched/page-2.html"

var c10OptNames = []string{"nil", "url", "url-pagenumber", "all-flags", "other-url", "no-url", "no-url-flags", "url-slash-pagenumber", "url-slash-prevnext", "url-nopath", "url-nopath-skip"}

func c10Opts(name string) *distiller.Options {
	u, _ := nurl.Parse("http://caller.example/original/page-2.html?x=1#frag")
	switch name {
	case "nil":
		return nil
	case "url":
		return &distiller.Options{OriginalURL: u}
	case "url-pagenumber":
		return &distiller.Options{OriginalURL: u, PaginationAlgo: distiller.PageNumber}
	case "all-flags":
		return &distiller.Options{OriginalURL: u, LogFlags: distiller.LogEverything}
	case "url-slash-pagenumber":
		us, _ := nurl.Parse("http://example.com/fetched/dir%20x/#top")
		return &distiller.Options{OriginalURL: us, PaginationAlgo: distiller.PageNumber}
	case "url-slash-prevnext":
		us, _ := nurl.Parse("http://example.com/fetched/dir%20x/?q=1#top")
		return &distiller.Options{OriginalURL: us, LogFlags: distiller.LogPagination}
	case "url-nopath":
		un, _ := nurl.Parse("http://example.com")
		return &distiller.Options{OriginalURL: un, PaginationAlgo: distiller.PageNumber}
	case "url-nopath-skip":
		un, _ := nurl.Parse("https://example.com")
		return &distiller.Options{OriginalURL: un, SkipPagination: true}
	case "no-url":
		return &distiller.Options{}
	case "no-url-flags":
		return &distiller.Options{LogFlags: distiller.LogEverything, PaginationAlgo: distiller.PageNumber}
	case "other-url":
		return &distiller.Options{OriginalURL: &nurl.URL{Scheme: "http", Host: "caller.example", Path: "/a b/", RawQuery: "q=1", User: nurl.UserPassword("u", "p")}, SkipPagination: true}
	}
	return nil
}

var c10Entries = []string{"apply-doc", "apply-sub", "url", "apply-multiroot"}

func c10Enumerate(tier string, emit func(*eng.Case)) {
	// documents of the other checks, under the options they were built for: a repeated call on the
	// document, one on an attached sub-element, and the document again
	crossEmit("C10", tier, "owned", 1, func(c *eng.Case) {
		c.P["opts"], c.P["hist"] = "case", "apply-doc,apply-sub,apply-doc"
		emit(c)
	})
	atoms := c10Atoms
	al := ora.AtomIndex(atoms, c10Alphabet...)
	maxE, maxH := 1, 3
	if tier == "thorough" {
		maxE = 2
	}
	var hists [][]int
	seqEnum([]int{0, 1, 2, 3}, maxH, func(seq []int) {
		if len(seq) > 0 {
			hists = append(hists, append([]int{}, seq...))
		}
	})
	starts := ora.StdSkeletons(atoms)[:1]
	ora.EnumDocs(starts, al, maxE, func(d *ora.DocModel, edits int) {
		// a root element with attributes (namespace declarations after an ordinary attribute)
		html := strings.Replace(d.Render(atoms), "<html>", "<html lang=\"en\" xmlns:og=\"http://ogp.me/ns#\" class=\"no-js\" xmlns:fb=\"http://ogp.me/ns/fb#\">", 1)
		desc := d.Describe(atoms)
		for _, on := range c10OptNames {
			for _, h := range hists {
				if tier != "thorough" && edits == 0 && len(h) < 2 {
					continue
				}
				nMulti := 0
				for _, x := range h {
					if x == 3 {
						nMulti++
					}
				}
				if tier != "thorough" && nMulti > 0 && (len(h) == 3 || (on != "nil" && on != "url")) {
					continue // quick: the multi-root entry in histories of <= 2 calls with two option sets
				}
				if tier != "thorough" && len(h) == 3 && !(on == "url" || on == "url-pagenumber" || on == "no-url" || on == "nil") {
					continue
				}
				var hs []string
				for _, x := range h {
					hs = append(hs, c10Entries[x])
				}
				emit(&eng.Case{Kind: "owned", HTML: html, P: map[string]string{"opts": on, "hist": strings.Join(hs, ","), "doc": fmt.Sprintf("%s opts=%s history=%s", desc, on, strings.Join(hs, ","))}})
			}
		}
	})
}

// treeSnapshot serialises structure and content of a tree with node numbering (pointer
// identity is captured by the numbering of parent/sibling links).
func treeSnapshot(root *html.Node) (string, map[*html.Node]int) {
	ids := map[*html.Node]int{nil: -1}
	var order []*html.Node
	ora.Walk(root, func(n *html.Node) bool {
		ids[n] = len(order)
		order = append(order, n)
		return true
	})
	id := func(n *html.Node) int {
		if v, ok := ids[n]; ok {
			return v
		}
		return -2 // points outside the snapshotted tree
	}
	var sb strings.Builder
	for i, n := range order {
		fmt.Fprintf(&sb, "%d t%d %q a%d ns%q p%d f%d l%d pv%d nx%d", i, n.Type, n.Data, n.DataAtom, n.Namespace, id(n.Parent), id(n.FirstChild), id(n.LastChild), id(n.PrevSibling), id(n.NextSibling))
		if i == 0 {
			// the root's own parent/siblings are outside the snapshot; record only whether they exist
		}
		for _, a := range n.Attr {
			fmt.Fprintf(&sb, " [%q %q=%q]", a.Namespace, a.Key, a.Val)
		}
		sb.WriteByte('\n')
	}
	return sb.String(), ids
}

func optsSnapshot(o *distiller.Options) string {
	if o == nil {
		return "<nil>"
	}
	s := fmt.Sprintf("flags=%d skip=%v algo=%d urlptr=%p", o.LogFlags, o.SkipPagination, o.PaginationAlgo, o.OriginalURL)
	if o.OriginalURL != nil {
		u := o.OriginalURL
		s += fmt.Sprintf(" url={%q %q %v %q %q %q %v %q %q %q}", u.Scheme, u.Opaque, u.User, u.Host, u.Path, u.RawPath, u.ForceQuery, u.RawQuery, u.Fragment, u.RawFragment)
	}
	return s
}

type stubTransport struct{ body string }

func (s *stubTransport) RoundTrip(r *http.Request) (*http.Response, error) {
	return &http.Response{
		StatusCode: 200, Status: "200 OK", Proto: "HTTP/1.1", ProtoMajor: 1, ProtoMinor: 1,
		Header:  http.Header{"Content-Type": []string{"text/html; charset=utf-8"}},
		Body:    io.NopCloser(strings.NewReader(s.body)),
		Request: r, ContentLength: int64(len(s.body)),
	}, nil
}

func c10Check(c *eng.Case) *eng.Outcome {
	o := &eng.Outcome{Execs: 0}
	doc := ora.Parse(c.HTML)
	opts := c10Opts(c.Get("opts"))
	if c.Get("opts") == "case" {
		opts = ora.Opts(c) // cross corpus: the page URL and algorithm the document was built for
	}
	sub := ora.Elements(doc, "div")
	var subEl *html.Node
	if len(sub) > 0 {
		subEl = sub[0] // the article container: an attached sub-element
	} else {
		subEl = ora.Elements(doc, "body")[0]
	}
	// a document node with several element children (as html.ParseFragment users build)
	multi := &html.Node{Type: html.DocumentNode}
	if frag := ora.Parse(c.HTML); frag != nil {
		if b := ora.Elements(frag, "body"); len(b) > 0 {
			if d := ora.Elements(b[0], "div"); len(d) > 0 {
				for ch := d[0].FirstChild; ch != nil; {
					next := ch.NextSibling
					d[0].RemoveChild(ch)
					multi.AppendChild(ch)
					ch = next
				}
			}
		}
	}
	oldTransport := http.DefaultTransport
	http.DefaultTransport = &stubTransport{body: c.HTML}
	defer func() { http.DefaultTransport = oldTransport }()

	owned := map[*html.Node]bool{}
	ora.Walk(doc, func(n *html.Node) bool { owned[n] = true; return true })
	ora.Walk(multi, func(n *html.Node) bool { owned[n] = true; return true })
	var ownedWrites []string
	verifrt.Hook = func(kind, site, arg int, write bool, n *html.Node) {
		if kind == verifrt.KNodeWrite && owned[n] && len(ownedWrites) < 5 {
			ownedWrites = append(ownedWrites, siteName(site)+" on <"+n.Data+">")
		}
	}
	defer func() { verifrt.Hook = nil }()

	last := map[string]string{}
	for ci, entry := range strings.Split(c.Get("hist"), ",") {
		beforeT, _ := treeSnapshot(doc)
		beforeM, _ := treeSnapshot(multi)
		beforeO := optsSnapshot(opts)
		ownedWrites = nil
		var res *distiller.Result
		var err error
		pi := eng.Protect(func() {
			switch entry {
			case "apply-doc":
				res, err = distiller.Apply(doc, opts)
			case "apply-sub":
				res, err = distiller.Apply(subEl, opts)
			case "apply-multiroot":
				res, err = distiller.Apply(multi, opts)
			case "url":
				res, err = distiller.ApplyForURL(c10Fetch, 5*time.Minute, opts)
			}
		})
		o.Execs++
		if pi != nil {
			o.Skipped = pi.Sig()
			return o
		}
		afterT, _ := treeSnapshot(doc)
		afterM, _ := treeSnapshot(multi)
		afterO := optsSnapshot(opts)
		if beforeM != afterM {
			o.V("tree-modified:"+entry+":multiroot", "call #%d (%s): the caller's multi-root document changed: %s; %s", ci, entry, firstDiff(beforeM, afterM), c.Get("doc"))
		}
		if beforeT != afterT {
			o.V("tree-modified:"+entry, "call #%d (%s): the caller's tree changed: %s; %s", ci, entry, firstDiff(beforeT, afterT), c.Get("doc"))
		}
		if len(ownedWrites) > 0 {
			o.V("write-to-owned-node:"+entry+":"+ownedWrites[0], "call #%d (%s): library wrote to caller-owned nodes at %v (even if restored later); %s", ci, entry, ownedWrites, c.Get("doc"))
		}
		if beforeO != afterO {
			o.V("options-modified:"+entry, "call #%d (%s): caller's Options changed from %s to %s; %s", ci, entry, beforeO, afterO, c.Get("doc"))
		}
		if err == nil && res != nil {
			if entry == "url" && res.URL != c10Fetch {
				o.V("url-result", "ApplyForURL: Result.URL=%q, fetched %q; %s", res.URL, c10Fetch, c.Get("doc"))
			}
			k := fullKey(res)
			if prev, ok := last[entry]; ok && prev != k {
				o.V("repeat-differs:"+entry+":"+diffField(prev, k), "call #%d (%s) returns a different result than the previous %s call on the same tree and Options: %s; %s", ci, entry, entry, firstDiff(prev, k), c.Get("doc"))
			}
			last[entry] = k
		}
	}
	o.Nontrivial = strings.Contains(c.Get("hist"), ",") || c.Get("opts") != "nil"
	o.Class = fmt.Sprintf("hist-len=%d opts=%s", strings.Count(c.Get("hist"), ",")+1, c.Get("opts"))
	return o
}

func init() {
	eng.Register(&eng.Prop{
		ID:        "C10",
		DesignRef: "§5 C10",
		Rule: "documents = S1 with <= 1 (quick) / <= 2 (thorough) insertions over 22 atoms in which the library rewrites nodes (font, javascript: anchor, noscript image, picture, lazy images (with and without a placeholder src that gets overwritten), embeds, video, tables, attribute-laden elements, relative links, pager, schema.org item); x options {nil, URL, URL+PageNumber, all log flags, URL with userinfo/escaped path + SkipPagination, non-nil options without URL (plain and with flags), URLs with trailing slash, escaped path and fragment under each pagination algorithm, URLs without a path} x every history of <= 3 calls over entry points {Apply(document), Apply(attached sub-element), ApplyForURL via an in-process RoundTripper, Apply(document node with several element children)} reusing one tree and one *Options." + crossRule + " (there: history Apply(document), Apply(sub-element), Apply(document) under the page URL and algorithm of the source check) " +
			"Oracle after every call: structural snapshot of the whole tree (types, names, atoms, attributes, parent/child/sibling links) unchanged; no hooked write (field assignment or DOM mutator) touched a caller-owned node; Options and *OriginalURL unchanged (including the pointer); repeated calls give the same result; ApplyForURL reports the fetched address. Non-trivial = history of >= 2 calls or non-nil options.",
		Enumerate: c10Enumerate,
		Check:     c10Check,
		Prepare:   func(tier string) { CrossCorpus(tier) },
		Bounds: func(tier string) map[string]any {
			e := 1
			if tier == "thorough" {
				e = 2
			}
			return map[string]any{"max_edits": e, "atoms": len(c10Alphabet), "options": len(c10OptNames), "max_history": 3, "entry_points": c10Entries, "cross": crossBounds(tier)}
		},
		Assumptions: []string{"writes through aliases of node fields are seen by the snapshot comparison only; ApplyForURL is driven through a stub RoundTripper"},
	})
}
