// Package props holds one file per property; each registers its space and oracle with eng.
package props
