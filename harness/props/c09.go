package props

import (
	"fmt"
	"strings"

	"golang.org/x/net/html"
	"verif/harness/eng"
	"verif/harness/ora"
)

// C09 — the views of one result agree: Text, HTML, ContentImages, WordCount.

var c09Atoms = append(append([]ora.Atom{}, ora.StdAtoms...),
	ora.Atom{Name: "IMGss", Gen: func(t *ora.Tok) string {
		return "<img src=\"http://example.com/img/" + t.U() + ".jpg\" srcset=\"http://example.com/img/" + t.U() + "-1x.jpg 1x, http://example.com/img/" + t.U() + "-2x.jpg 2x\" width=\"400\" height=\"300\">"
	}},
	ora.Atom{Name: "IMGrel", Gen: func(t *ora.Tok) string {
		return "<img src=\"img/" + t.U() + ".jpg\" srcset=\"img/" + t.U() + "-1x.jpg 1x, /abs/" + t.U() + "-2x.jpg 2x\" width=\"400\" height=\"300\">"
	}},
	ora.Atom{Name: "LAZY", Gen: func(t *ora.Tok) string {
		return "<img data-src=\"http://example.com/img/" + t.U() + ".jpg\" data-srcset=\"http://example.com/img/" + t.U() + "-2x.jpg 2x\" class=\"lazy\" width=\"400\" height=\"300\">"
	}},
	ora.Atom{Name: "IMGcdn", Gen: func(t *ora.Tok) string {
		return "<img src=\"http://cdn.example.com/img/w_200,c_fill/" + t.U() + ".jpg\" srcset=\"http://cdn.example.com/img/w_400,h_300/" + t.U() + ".jpg 400w, http://cdn.example.com/img/w_800,h_600/" + t.U() + ".jpg 800w\" width=\"400\" height=\"300\">"
	}},
	ora.Atom{Name: "FALLBt", Gen: func(t *ora.Tok) string {
		return "<p>" + t.W(12) + " <span class=\"mwe-math-fallback-image-inline\" aria-hidden=\"true\">" + t.W(3) + "</span> " + t.W(8) + "</p>"
	}},
	ora.Atom{Name: "FIGhi", Gen: func(t *ora.Tok) string {
		return "<figure><img src=\"http://example.com/img/" + t.U() + ".jpg\" width=\"400\" height=\"300\"><figcaption>" + t.W(3) + " <a href=\"http://example.com/l/" + t.U() + "\">" + t.W(2) + "</a> <img hidden src=\"http://example.com/count/" + t.U() + ".gif\"> <img src=\"http://example.com/img/" + t.U() + "-credit.png\"></figcaption></figure>"
	}},
	ora.Atom{Name: "LAZYs", Gen: func(t *ora.Tok) string {
		return "<img src=\"http://example.com/img/placeholder.gif\" srcset=\"http://example.com/img/placeholder.gif 1x\" data-src=\"http://example.com/img/" + t.U() + ".jpg\" data-srcset=\"http://example.com/img/" + t.U() + "-2x.jpg 2x\" class=\"lazy\" width=\"400\" height=\"300\">"
	}},
	ora.Atom{Name: "TBLi", Gen: func(t *ora.Tok) string {
		return "<table><tr><th>" + t.W(1) + "</th><th>" + t.W(1) + "</th></tr><tr><td><img src=\"http://example.com/img/" + t.U() + ".jpg\"> " + t.W(2) + "</td><td>" + t.W(1) + "</td></tr><tr><td>" + t.W(1) + "</td><td>" + t.W(2) + "</td></tr></table>"
	}},
	// a data table with two images: one with src and srcset, followed by one with src only
	ora.Atom{Name: "TBLi2", Gen: func(t *ora.Tok) string {
		return "<table><tr><th>" + t.W(1) + "</th><th>" + t.W(1) + "</th></tr><tr><td><img src=\"http://example.com/img/" + t.U() + ".jpg\" srcset=\"http://example.com/img/" + t.U() + "-1x.jpg 1x, http://example.com/img/" + t.U() + "-2x.jpg 2x\"> " + t.W(2) + "</td><td><img src=\"http://example.com/img/" + t.U() + ".png\"> " + t.W(1) + "</td></tr><tr><td>" + t.W(1) + "</td><td>" + t.W(2) + "</td></tr></table>"
	}},
	// a video with fallback content of every kind: text directly inside, an element, text after it
	ora.Atom{Name: "VIDf", Gen: func(t *ora.Tok) string {
		return "<video src=\"http://example.com/v/" + t.U() + ".mp4\" width=\"400\" height=\"300\">\n  <source src=\"http://example.com/v/" + t.U() + ".webm\">\n  " + t.W(4) + " <a href=\"http://example.com/v/" + t.U() + ".mp4\">" + t.W(2) + "</a> " + t.W(2) + "\n  <div>" + t.W(3) + "</div>\n</video>"
	}},
	// a paragraph whose whole content sits in one inline wrapper
	ora.Atom{Name: "WRAPi", Gen: func(t *ora.Tok) string {
		return "<p><strong>" + t.W(9) + " <em>" + t.W(2) + "</em> " + t.W(10) + "</strong></p>"
	}},
	ora.Atom{Name: "PICf", Gen: func(t *ora.Tok) string {
		return "<picture><source srcset=\"http://example.com/img/" + t.U() + ".webp 1x, http://example.com/img/" + t.U() + "-2.webp 2x\"><img src=\"http://example.com/img/" + t.U() + ".jpg\" width=\"400\" height=\"300\"></picture>"
	}},
	ora.Atom{Name: "PUN", Gen: func(t *ora.Tok) string {
		return "<p>" + t.W(7) + " , " + t.W(6) + " . <i>" + t.W(2) + "</i> ; " + t.W(7) + "</p>"
	}},
	ora.Atom{Name: "TW", Gen: func(t *ora.Tok) string {
		return "<blockquote class=\"twitter-tweet\"><p>" + t.W(8) + "</p><a href=\"https://twitter.com/u/status/12345" + "\">" + t.W(2) + "</a></blockquote>"
	}},
)

var c09Alphabet = []string{"Pc", "Ps", "Pb", "H", "UL3", "ULn", "BQ", "PRE", "TBLd", "TBLl", "TBLi", "TBLi2", "VIDf", "WRAPi", "IMG", "IMGss", "IMGcdn", "IMGrel", "LAZY", "LAZYs", "PICf", "FALLBt", "FIGhi", "PIC", "FIG", "FIGl", "FIGe",
	"INL", "JS1", "BR", "HIDs", "NOS", "PUN", "VID", "YT", "TW", "TXT", "TBLh", "SIDE"}

// text-only alphabet for the word-count clause
var c09TextOnly = []string{"Pc", "Pc2", "Ps", "Pb", "UL3", "ULn", "BQ", "PRE", "INL", "JS2", "BR", "HIDs", "PUN", "DIVt", "TBLl", "SIDE", "TXT", "FALLBt"}

func c09Enumerate(tier string, emit func(*eng.Case)) {
	own := withDecor(decorEvery(tier), emit)
	atoms := c09Atoms
	alpha := ora.AtomIndex(atoms, c09Alphabet...)
	starts := ora.StdSkeletons(atoms)
	maxE := 2
	if tier == "thorough" {
		maxE = 3
	}
	for _, url := range []string{"", "http://example.com/a/b/story.html"} {
		e := maxE
		if tier == "thorough" && url == "" {
			e = maxE - 1 // the third edit only with a page URL (the richer path: links and images get resolved)
		}
		ora.EnumDocs(starts, alpha, e, func(d *ora.DocModel, edits int) {
			own(caseFromModel("views", d, atoms, url))
		})
	}
	// word-count clause: no <title>, no tables/figures/images
	alphaT := ora.AtomIndex(atoms, c09TextOnly...)
	ora.EnumDocs(starts, alphaT, maxE, func(d *ora.DocModel, edits int) {
		c := caseFromModel("wordcount", d, atoms, "")
		c.HTML = strings.Replace(c.HTML, "<title>"+ora.DefaultTitle+"</title>", "", 1)
		own(c)
	})
	crossEmit("C09", tier, "views", 1, emit)
}

// imageCandidates lists, in document order, the src and srcset candidate URLs of the img and
// source elements of the distilled HTML.
func imageCandidates(root *html.Node) []string {
	var out []string
	ora.Walk(root, func(n *html.Node) bool {
		if n.Type == html.ElementNode && (n.Data == "img" || n.Data == "source") {
			if v, ok := ora.Attr(n, "src"); ok && v != "" {
				out = append(out, v)
			}
			if v, ok := ora.Attr(n, "srcset"); ok {
				out = append(out, ora.SrcsetCandidates(v)...)
			}
		}
		return true
	})
	return out
}

func c09Check(c *eng.Case) *eng.Outcome {
	o := &eng.Outcome{}
	a := analyse(c, o)
	if a == nil {
		return o
	}
	// (a) Text words == HTML visible words
	if strings.Join(a.TextWords, " ") != strings.Join(a.HTMLWords, " ") {
		i := 0
		for i < len(a.TextWords) && i < len(a.HTMLWords) && a.TextWords[i] == a.HTMLWords[i] {
			i++
		}
		tw, hw := "<end>", "<end>"
		if i < len(a.TextWords) {
			tw = a.TextWords[i]
		}
		if i < len(a.HTMLWords) {
			hw = a.HTMLWords[i]
		}
		loc := "?"
		if n, ok := a.SrcNodeOf[tw]; ok {
			loc = tagPath(n)
		} else if n, ok := a.SrcNodeOf[hw]; ok {
			loc = tagPath(n)
		}
		o.V("text-html-differ:"+loc, "word sequences differ at index %d: Text has %q, HTML has %q; doc %s", i, tw, hw, c.Get("doc"))
	}
	// (b) ContentImages is a subsequence of the HTML's image candidates
	cands := imageCandidates(a.Res.Node)
	j := 0
	for _, u := range a.Res.ContentImages {
		for j < len(cands) && cands[j] != u {
			j++
		}
		if j == len(cands) {
			o.V("contentimage-not-in-html", "ContentImages entry %q is not (in order) a src/srcset candidate of the distilled HTML %v; doc %s", u, cands, c.Get("doc"))
			break
		}
		j++
	}
	// (c) WordCount
	if c.Kind == "wordcount" && a.Res.Title == "" {
		if a.Res.WordCount != len(a.TextWords) {
			o.V("wordcount", "WordCount=%d but Text has %d words; doc %s", a.Res.WordCount, len(a.TextWords), c.Get("doc"))
		}
	}
	o.Nontrivial = len(a.TextWords) >= 20 && (len(a.Res.ContentImages) > 0 || c.Kind == "wordcount") && len(a.TextWords) < len(a.SrcWords)
	o.Class = fmt.Sprintf("%s imgs=%d kept=%s", c.Kind, min(len(a.Res.ContentImages), 4), pct(len(a.TextWords), len(a.SrcWords)))
	return o
}

func init() {
	eng.Register(&eng.Prop{
		ID:        "C09",
		DesignRef: "§5 C09",
		Rule: "docspace BFS from S1,S2 with <= 2 (quick) / <= 3 (thorough) insertions over 39 atoms covering every element kind (images with src+srcset, relative URLs, lazy images, picture, tables with images, figures, embeds, punctuation), with and without page URL (thorough: the third insertion only with page URL); " +
			"plus the title-less text-only sub-space (18 atoms, including a sidebar-classed link cluster so that the two extraction passes differ) for the WordCount clause." + crossRule + " Oracle: words(Text) == words(visible text of result.Node) outside embed placeholders; ContentImages is an in-order subsequence of the HTML's img/source src+srcset candidates; WordCount == |words(Text)| in the text-only sub-space when Title is empty. " +
			"Non-trivial = some text dropped, >= 20 words kept and (images listed or word-count clause applies).",
		Enumerate: c09Enumerate,
		Check:     c09Check,
		Prepare:   func(tier string) { CrossCorpus(tier) },
		Bounds: func(tier string) map[string]any {
			e := 2
			if tier == "thorough" {
				e = 3
			}
			return map[string]any{"decorated_variants": decorBound(tier), "max_edits_views": e, "max_edits_wordcount": e, "atoms": len(c09Alphabet), "atoms_textonly": len(c09TextOnly), "cross": crossBounds(tier)}
		},
	})
}
