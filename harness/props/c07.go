package props

import (
	"fmt"
	"strings"

	"golang.org/x/net/html"
	"verif/harness/eng"
	"verif/harness/ora"
)

// C07 — retained text keeps its list/quote/pre nesting; data tables are kept whole.

// structure grammar: Block := leaf | list(ul|ol)[items] | bq[blocks] | pre[text] | div[blocks]
type c07Node struct {
	kind string // leaf name, or ul/ol/li/blockquote/pre/div
	kids []*c07Node
}

var c07LeavesQ = []string{"Pc", "Ps", "Tl", "IMG", "T22"}
var c07LeavesT = []string{"Pc", "Ps", "Pb", "Tl", "Ts", "IMG", "T22", "T33", "T22c"}

func c07Leaf(kind string, t *ora.Tok, inPre bool) string {
	switch kind {
	case "Pc":
		if inPre {
			return t.W(20) + "\n"
		}
		return "<p>" + t.W(20) + "</p>"
	case "Ps":
		if inPre {
			return t.W(3) + "\n"
		}
		return "<p>" + t.W(3) + "</p>"
	case "Pb":
		return "<p><a href=\"http://example.com/l/" + t.U() + "\">" + t.W(2) + "</a> <a href=\"http://example.com/l/" + t.U() + "\">" + t.W(2) + "</a></p>"
	case "Tl":
		return t.W(19) + " "
	case "Ts":
		return t.W(2) + " "
	case "IMG":
		return "<img src=\"http://example.com/img/" + t.U() + ".jpg\" width=\"400\" height=\"300\">"
	case "T22":
		return "<table><tr><th>" + t.W(1) + "</th><th>" + t.W(1) + "</th></tr><tr><td>" + t.W(2) + "</td><td>" + t.W(1) + "</td></tr></table>"
	case "T22c":
		return "<table><tr><th>" + t.W(1) + "</th><th>" + t.W(1) + "</th><th>" + t.W(1) + "</th></tr><tr><td>" + t.W(1) + "</td><td><!-- empty --></td><td><span hidden>" + t.W(1) + "</span></td></tr><tr><td><!-- only --></td></tr><tr><td>" + t.W(1) + "</td><td></td><td>" + t.W(1) + "</td></tr><tr aria-hidden=\"false\"><td>" + t.W(1) + "</td><td aria-hidden=\"false\">" + t.W(1) + "</td><td>" + t.W(1) + "</td></tr></table>"
	case "T33h":
		// rows and cells that share one inline style; the first of each is hidden by an attribute
		return "<table><tr><th>" + t.W(1) + "</th><th>" + t.W(1) + "</th><th>" + t.W(1) + "</th></tr><tr style=\"height:24px\" hidden><td>" + t.W(1) + "</td><td>" + t.W(1) + "</td><td>" + t.W(1) + "</td></tr><tr style=\"height:24px\"><td style=\"text-align:right\" aria-hidden=\"true\">" + t.W(1) + "</td><td style=\"text-align:right\">" + t.W(1) + "</td><td>" + t.W(1) + "</td></tr><tr style=\"height:24px\"><td>" + t.W(1) + "</td><td style=\"text-align:right\">" + t.W(1) + "</td><td>" + t.W(1) + "</td></tr></table>"
	case "FIGc":
		return "<figure><img src=\"http://example.com/img/" + t.U() + ".jpg\" width=\"400\" height=\"300\"><figcaption>" + t.W(4) + "</figcaption></figure>"
	case "JSb":
		return "<a href=\"javascript:window.print()\"> </a>"
	case "TW":
		return "<blockquote class=\"twitter-tweet\"><p>" + t.W(7) + "</p><a href=\"https://twitter.com/someone/status/424242\">" + t.W(2) + "</a></blockquote>"
	case "T33":
		return "<table><caption>" + t.W(2) + "</caption><tr><th>" + t.W(1) + "</th><th>" + t.W(1) + "</th><th>" + t.W(1) + "</th></tr><tr><td>" + t.W(1) + "</td><td>" + t.W(1) + "</td><td>" + t.W(1) + "</td></tr><tr><td>" + t.W(1) + "</td><td>" + t.W(1) + "</td><td>" + t.W(1) + "</td></tr></table>"
	}
	panic("leaf " + kind)
}

func (n *c07Node) render(t *ora.Tok, inPre bool, sb *strings.Builder) {
	switch n.kind {
	case "ul", "ol", "li", "blockquote", "pre", "div":
		sb.WriteString("<" + n.kind + ">")
		for _, k := range n.kids {
			k.render(t, inPre || n.kind == "pre", sb)
		}
		sb.WriteString("</" + n.kind + ">")
	default:
		sb.WriteString(c07Leaf(n.kind, t, inPre))
	}
}

func (n *c07Node) desc(sb *strings.Builder) {
	if len(n.kids) == 0 && !strings.ContainsAny(n.kind[:1], "uolbpd") {
		sb.WriteString(n.kind)
		return
	}
	sb.WriteString(n.kind + "(")
	for i, k := range n.kids {
		if i > 0 {
			sb.WriteByte(' ')
		}
		k.desc(sb)
	}
	sb.WriteString(")")
}

type c07Cfg struct {
	leaves []string
	conts  []string // blockquote / div
	lists  []string // ul / ol
}

// c07Forests enumerates every sequence of blocks with exactly `leaves` leaves in total and
// container nesting depth <= depth. A list and its items count as one level.
func c07Forests(leaves, depth int, cfg *c07Cfg, inPre bool, emit func([]*c07Node)) {
	if leaves == 0 {
		emit(nil)
		return
	}
	// first block takes k leaves, the rest of the forest leaves-k
	for k := 1; k <= leaves; k++ {
		c07Blocks(k, depth, cfg, inPre, func(b *c07Node) {
			c07Forests(leaves-k, depth, cfg, inPre, func(rest []*c07Node) {
				emit(append([]*c07Node{b}, rest...))
			})
		})
	}
}

// c07Blocks enumerates single blocks with exactly `leaves` leaves.
func c07Blocks(leaves, depth int, cfg *c07Cfg, inPre bool, emit func(*c07Node)) {
	if leaves == 1 {
		for _, lk := range cfg.leaves {
			if inPre && lk != "Pc" && lk != "Ps" {
				continue // pre holds text only
			}
			emit(&c07Node{kind: lk})
		}
	}
	if depth == 0 || inPre {
		return
	}
	for _, kind := range cfg.conts {
		c07Forests(leaves, depth-1, cfg, false, func(f []*c07Node) {
			emit(&c07Node{kind: kind, kids: f})
		})
	}
	// pre with text leaves
	c07Forests(leaves, 0, cfg, true, func(f []*c07Node) {
		emit(&c07Node{kind: "pre", kids: f})
	})
	// lists: partition the leaves over >= 1 items
	for _, kind := range cfg.lists {
		c07Items(leaves, depth-1, cfg, func(items []*c07Node) {
			emit(&c07Node{kind: kind, kids: items})
		})
	}
}

func c07Items(leaves, depth int, cfg *c07Cfg, emit func([]*c07Node)) {
	if leaves == 0 {
		emit(nil)
		return
	}
	for k := 1; k <= leaves; k++ {
		c07Forests(k, depth, cfg, false, func(f []*c07Node) {
			item := &c07Node{kind: "li", kids: f}
			c07Items(leaves-k, depth, cfg, func(rest []*c07Node) {
				emit(append([]*c07Node{item}, rest...))
			})
		})
	}
}

type c07Pass struct {
	cfg        c07Cfg
	depth      int
	minL, maxL int
	placements [][2]int
}

var allPlacements = [][2]int{{0, 0}, {0, 1}, {1, 0}, {1, 1}, {2, 0}, {2, 1}}

func c07Passes(tier string) []c07Pass {
	q := c07Cfg{leaves: []string{"Pc", "Ps", "Pb", "Tl", "T22c"}, conts: []string{"blockquote"}, lists: []string{"ul"}}
	q2 := c07Cfg{leaves: []string{"Pc", "Ps", "IMG", "TW", "JSb"}, conts: []string{"div"}, lists: []string{"ol"}}
	q3 := c07Cfg{leaves: []string{"Pc", "Ps", "T33h", "FIGc"}, conts: []string{"blockquote"}, lists: []string{"ul", "ol"}}
	if tier != "thorough" {
		return []c07Pass{
			{q, 1, 1, 3, allPlacements},
			{q, 3, 1, 2, [][2]int{{0, 0}, {1, 1}, {2, 0}}},
			{q, 2, 3, 3, [][2]int{{1, 1}}},
			{q2, 2, 1, 2, [][2]int{{0, 0}, {1, 1}}},
			{q3, 2, 1, 2, [][2]int{{0, 0}, {0, 1}, {1, 1}, {1, 0}}},
		}
	}
	t := c07Cfg{leaves: []string{"Pc", "Ps", "Tl", "IMG", "T22"}, conts: []string{"blockquote", "div"}, lists: []string{"ul", "ol"}}
	t2 := c07Cfg{leaves: c07LeavesT, conts: []string{"blockquote"}, lists: []string{"ul"}}
	return []c07Pass{
		{t, 3, 1, 2, allPlacements},
		{t, 2, 3, 3, [][2]int{{0, 0}, {1, 1}}},
		{t, 1, 3, 4, [][2]int{{0, 0}, {1, 1}}},
		{t2, 2, 1, 3, [][2]int{{0, 0}, {1, 1}, {2, 0}}},
		{q3, 2, 1, 3, [][2]int{{0, 0}, {0, 1}, {1, 1}, {1, 0}}},
	}
}

func c07Enumerate(tier string, emit func(*eng.Case)) {
	emit = withDecor(decorEvery(tier), emit)
	gen := func(f []*c07Node, before, after int) {
		t := &ora.Tok{}
		var sb, ds strings.Builder
		sb.WriteString("<html><head><title>" + ora.DefaultTitle + "</title></head><body><div class=\"main\">")
		for i := 0; i < before; i++ {
			sb.WriteString("<p>" + t.W(22) + "</p>")
		}
		for _, b := range f {
			b.render(t, false, &sb)
			b.desc(&ds)
			ds.WriteByte(' ')
		}
		for i := 0; i < after; i++ {
			sb.WriteString("<p>" + t.W(23) + "</p>")
		}
		sb.WriteString("</div></body></html>")
		emit(&eng.Case{Kind: "nest", HTML: sb.String(), P: map[string]string{"doc": fmt.Sprintf("before=%d after=%d %s", before, after, ds.String())}})
	}
	for _, ps := range c07Passes(tier) {
		ps := ps
		for n := ps.minL; n <= ps.maxL; n++ {
			c07Forests(n, ps.depth, &ps.cfg, false, func(f []*c07Node) {
				for _, pl := range ps.placements {
					gen(f, pl[0], pl[1])
				}
			})
		}
	}
}

var nestable = map[string]bool{"ul": true, "ol": true, "li": true, "blockquote": true, "pre": true}

func nestChain(n *html.Node, stop *html.Node) []*html.Node {
	var out []*html.Node
	for p := n.Parent; p != nil && p != stop; p = p.Parent {
		if p.Type == html.ElementNode && nestable[p.Data] {
			out = append([]*html.Node{p}, out...)
		}
	}
	return out
}

func chainNames(ch []*html.Node) string {
	var s []string
	for _, n := range ch {
		s = append(s, n.Data)
	}
	return strings.Join(s, ">")
}

func commonPrefix(a, b []*html.Node) int {
	i := 0
	for i < len(a) && i < len(b) && a[i] == b[i] {
		i++
	}
	return i
}

type wordAt struct {
	w    string
	node *html.Node
}

func outWordNodes(root *html.Node) []wordAt {
	var out []wordAt
	ora.Walk(root, func(n *html.Node) bool {
		switch n.Type {
		case html.TextNode:
			for _, w := range ora.Words(n.Data) {
				out = append(out, wordAt{w, n})
			}
		case html.ElementNode:
			if n.Data == "script" || n.Data == "style" || ora.IsPlaceholder(n) {
				return false
			}
		}
		return true
	})
	return out
}

func c07Check(c *eng.Case) *eng.Outcome {
	o := &eng.Outcome{}
	a := analyse(c, o)
	if a == nil {
		return o
	}
	outW := outWordNodes(a.Res.Node)
	partial := false
	deep := false
	var prev *wordAt
	var prevSrc []*html.Node
	var prevOut []*html.Node
	for i := range outW {
		ow := &outW[i]
		sn, ok := a.SrcNodeOf[ow.w]
		if !ok || a.SrcDup[ow.w] {
			prev = nil
			continue // C02's business
		}
		sc := nestChain(sn, nil)
		oc := nestChain(ow.node, a.Res.Node)
		if len(sc) >= 2 {
			deep = true
		}
		if chainNames(sc) != chainNames(oc) {
			o.V("chain:"+chainNames(sc)+"=>"+chainNames(oc), "word %q is inside [%s] in the source but inside [%s] in the distilled HTML; doc %s", ow.w, chainNames(sc), chainNames(oc), c.Get("doc"))
		} else if prev != nil {
			cs, co := commonPrefix(prevSrc, sc), commonPrefix(prevOut, oc)
			if cs != co {
				o.V(fmt.Sprintf("grouping:%s:%d=>%d", chainNames(sc), cs, co), "words %q and %q share %d nestable ancestors in the source but %d in the distilled HTML; doc %s", prev.w, ow.w, cs, co, c.Get("doc"))
			}
		}
		prev, prevSrc, prevOut = ow, sc, oc
	}
	if len(a.HTMLWords) < len(a.SrcWords) && len(a.HTMLWords) > 0 {
		partial = true
	}
	// tables
	htmlSet := ora.Set(a.HTMLWords)
	for _, st := range ora.Elements(a.Doc, "table") {
		if !isDataTableSrc(st) {
			continue
		}
		cells := ora.WordsOfNodes(ora.SrcVisibleText(st)) // hidden cell content is legitimately dropped
		if len(cells) == 0 {
			continue
		}
		var ot *html.Node
		for _, ow := range outW {
			if ow.w == cells[0] || ow.w == cells[len(cells)-1] {
				ot = ora.Ancestor(ow.node, "table")
				if ot != nil {
					break
				}
			}
		}
		anyKept := false
		for _, w := range cells {
			if htmlSet[w] {
				anyKept = true
			}
		}
		if !anyKept {
			continue
		}
		if ot == nil {
			// retained but not as a table: only a violation if it is a data table that got flattened partially
			missing := 0
			for _, w := range cells {
				if !htmlSet[w] {
					missing++
				}
			}
			if missing > 0 {
				o.V("table-partial-flat", "data table partially retained (%d of %d cell words missing) and not as a <table>; doc %s", missing, len(cells), c.Get("doc"))
			}
			continue
		}
		for _, w := range cells {
			if !htmlSet[w] {
				o.V("table-cell-lost", "retained data table lost cell word %q; doc %s", w, c.Get("doc"))
				break
			}
		}
		if s, t := tableShape(st), tableShape(ot); s != t {
			o.V("table-shape", "retained data table has row/cell shape %s, source %s; doc %s", t, s, c.Get("doc"))
		}
	}
	o.Nontrivial = partial && deep
	o.Class = fmt.Sprintf("kept=%s deep=%v", pct(len(a.HTMLWords), len(a.SrcWords)), deep)
	return o
}

func tableShape(t *html.Node) string {
	var rows []string
	for _, tr := range ora.Elements(t, "tr") {
		if ora.Ancestor(tr, "table") != t {
			continue
		}
		if ora.HiddenKind(tr) != "" {
			continue // hidden rows and cells are legitimately dropped
		}
		n := 0
		for c := tr.FirstChild; c != nil; c = c.NextSibling {
			if c.Type == html.ElementNode && (c.Data == "td" || c.Data == "th") && ora.HiddenKind(c) == "" {
				n++
			}
		}
		rows = append(rows, fmt.Sprint(n))
	}
	return strings.Join(rows, ",")
}

func init() {
	eng.Register(&eng.Prop{
		ID:        "C07",
		DesignRef: "§5 C07",
		Rule: "all block forests (sequences of trees) over list(+li items)/blockquote|div/pre containers, enumerated completely per pass; quick passes: {ul,blockquote,pre}x{Pc,Ps,link-only paragraph,bare text, data table with comment-only/hidden-only/empty cells and a one-cell row}: depth 1 with <= 3 leaves x 6 placements, depth 3 with <= 2 leaves x 3 placements, depth 2 with 3 leaves x 1 placement; {ol,div,pre}x{Pc,Ps,IMG,embedded tweet,blank javascript: anchor} depth 2, <= 2 leaves; {ul,ol,blockquote,pre}x{Pc,Ps, a data table whose rows and cells share inline styles with a hidden first row/cell, a captioned figure} depth 2, <= 2 leaves x 4 placements; " +
			"thorough passes: {ul,ol,blockquote,div,pre}x5 leaf kinds: depth 3 <= 2 leaves x 6 placements, depth 2 with 3 leaves, depth 1 with <= 4 leaves; {ul,blockquote,pre}x8 leaf kinds depth 2 <= 3 leaves. A placement = (0..2 content paragraphs before, 0..1 after). " +
			"Oracle: every retained word has the same ul/ol/li/blockquote/pre ancestor chain in source and output; adjacent retained words share the same number of nestable ancestors (items stay in their list); a retained data table keeps all cell words and its row/cell shape. " +
			"Non-trivial = a chain of depth >= 2 exists among retained words and the document is only partially retained.",
		Enumerate: c07Enumerate,
		Check:     c07Check,
		Bounds: func(tier string) map[string]any {
			var out []map[string]any
			for _, ps := range c07Passes(tier) {
				out = append(out, map[string]any{"leaves": ps.cfg.leaves, "containers": append(append([]string{"pre"}, ps.cfg.conts...), ps.cfg.lists...), "max_depth": ps.depth, "min_leaves": ps.minL, "max_leaves": ps.maxL, "placements": len(ps.placements)})
			}
			return map[string]any{"decorated_variants": decorBound(tier), "passes": out}
		},
	})
}
