package props

import (
	"fmt"
	"strings"

	"golang.org/x/net/html"
	"verif/harness/eng"
	"verif/harness/ora"
)

// C03 — a simple paragraph is kept or dropped as a whole.

type inl struct {
	name string
	gen  func(t *ora.Tok) string
}

func wrapInl(tag string) func(t *ora.Tok) string {
	return func(t *ora.Tok) string { return "<" + tag + ">" + t.W(2) + "</" + tag + ">" }
}

var c03Inl = []inl{
	{"Ts", func(t *ora.Tok) string { return t.W(2) }},
	{"Tl", func(t *ora.Tok) string { return t.W(11) }},
	{"br", func(t *ora.Tok) string { return "<br>" }},
	{"b", wrapInl("b")},
	{"span", wrapInl("span")},
	{"font", wrapInl("font")},
	{"code", wrapInl("code")},
	{"a-abs", func(t *ora.Tok) string { return "<a href=\"http://example.com/l/" + t.U() + "\">" + t.W(2) + "</a>" }},
	{"a-js", func(t *ora.Tok) string { return "<a href=\"javascript:void(0)\">" + t.W(2) + "</a>" }},
	{"a-jsb", func(t *ora.Tok) string { return "<a href=\"javascript:go(1)\"><b>" + t.W(1) + "</b></a>" }},
	{"b-i", func(t *ora.Tok) string { return "<b><i>" + t.W(1) + "</i> " + t.W(1) + "</b>" }},
	{"a-js2", func(t *ora.Tok) string {
		return "<a href=\"javascript:void(0)\">" + t.W(1) + "<i>" + t.W(1) + "</i></a>"
	}},
	{"a-js3", func(t *ora.Tok) string { return "<a href=\"javascript:void(0)\">" + t.W(1) + "<br>" + t.W(1) + "</a>" }},
	{"b-br-last", func(t *ora.Tok) string { return "<b>" + t.W(2) + "<br></b>" }},
	{"a-br-last", func(t *ora.Tok) string {
		return "<a href=\"http://example.com/l/" + t.U() + "\">" + t.W(1) + "<br></a>"
	}},
	{"a-hash", func(t *ora.Tok) string { return "<a href=\"#\">" + t.W(2) + "</a>" }},
	// thorough only:
	{"i", wrapInl("i")},
	{"em", wrapInl("em")},
	{"strong", wrapInl("strong")},
	{"u", wrapInl("u")},
	{"a-rel", func(t *ora.Tok) string { return "<a href=\"rel/" + t.U() + ".html\">" + t.W(2) + "</a>" }},
	// hidden inline elements between the visible words (used by the "hidden" sub-space only)
	{"hid-attr", func(t *ora.Tok) string { return "<span hidden>" + t.W(1) + "</span>" }},
	{"hid-dn", func(t *ora.Tok) string { return "<span style=\"display:none\">" + t.W(1) + "</span>" }},
	{"hid-aria", func(t *ora.Tok) string { return "<b aria-hidden=\"true\">" + t.W(1) + "</b>" }},
	{"hid-empty", func(t *ora.Tok) string { return "<span hidden></span>" }},
}

const c03Hidden = 4 // the last four symbols

const c03QuickSyms = 16

var c03Contexts = []string{"body", "div", "li", "blockquote", "td-layout", "td-data"}
var c03Surround = []string{"kept", "dropped", "between"}

// c03ProbeInner renders the children of the probe paragraph (tokens start at 1, as in c03Doc).
func c03ProbeInner(seq []int) string {
	t := &ora.Tok{}
	var probe strings.Builder
	for i, s := range seq {
		if i > 0 {
			probe.WriteByte(' ')
		}
		probe.WriteString(c03Inl[s].gen(t))
	}
	return probe.String()
}

func c03Doc(seq []int, ctx, sur string) string {
	t := &ora.Tok{}
	var probe strings.Builder
	probe.WriteString("<p>")
	for i, s := range seq {
		if i > 0 {
			probe.WriteByte(' ')
		}
		probe.WriteString(c03Inl[s].gen(t))
	}
	probe.WriteString("</p>")
	p := probe.String()
	switch ctx {
	case "div":
		p = "<div>" + p + "</div>"
	case "li":
		p = "<ul><li>" + p + "</li></ul>"
	case "blockquote":
		p = "<blockquote>" + p + "</blockquote>"
	case "td-layout":
		p = "<table><tr><td>" + p + "</td></tr></table>"
	case "td-data":
		p = "<table><tr><th>" + t.W(1) + "</th><th>" + t.W(1) + "</th></tr><tr><td>" + p + "</td><td>" + t.W(1) + "</td></tr></table>"
	}
	pc := func() string { return "<p>" + t.W(21) + "</p>" }
	pb := func() string {
		return "<div class=\"links\"><a href=\"http://example.com/l/" + t.U() + "\">" + t.W(2) + "</a> <a href=\"http://example.com/l/" + t.U() + "\">" + t.W(2) + "</a> <a href=\"http://example.com/l/" + t.U() + "\">" + t.W(1) + "</a></div>"
	}
	var body string
	switch sur {
	case "kept":
		body = "<div class=\"main\">" + pc() + pc() + p + pc() + "</div>"
	case "dropped":
		body = pb() + p + pb() + "<div class=\"main\">" + pc() + pc() + pc() + "</div>"
	case "between":
		body = "<div class=\"main\">" + pc() + pc() + pc() + p + "</div>" + pb() + pb()
	}
	if ctx == "body" && sur == "kept" {
		body = pc() + pc() + p + pc()
	}
	return "<html><head><title>" + ora.DefaultTitle + "</title></head><body>" + body + "</body></html>"
}

// c03DeepDoc nests the probe paragraph under `depth` plain div wrappers.
func c03DeepDoc(depth int, ctx string) string {
	t := &ora.Tok{}
	p := "<p>" + t.W(11) + " <b>" + t.W(2) + "</b> " + t.W(6) + " <i>" + t.W(2) + "</i> <a href=\"http://example.com/l/x\">" + t.W(2) + "</a> " + t.W(5) + "</p>"
	switch ctx {
	case "blockquote":
		p = "<blockquote>" + p + "</blockquote>"
	case "td-layout":
		p = "<table><tr><td>" + p + "</td></tr></table>"
	}
	pc := func() string { return "<p>" + t.W(21) + "</p>" }
	return "<html><head><title>" + ora.DefaultTitle + "</title></head><body><div class=\"main\">" + pc() + pc() + strings.Repeat("<div>", depth) + p + strings.Repeat("</div>", depth) + pc() + "</div></body></html>"
}

func c03Enumerate(tier string, emit func(*eng.Case)) {
	crossEmit("C03", tier, "xpara", 1, emit)
	emit = withDecor(decorEvery(tier), emit)
	// every nesting depth up to 300 (a walker or clone that gives up at some depth cuts a paragraph)
	maxDepth := 300
	for d := 1; d <= maxDepth; d++ {
		for _, ctx := range []string{"div", "blockquote", "td-layout"} {
			if tier != "thorough" && ctx != "div" && d%2 == 1 {
				continue
			}
			emit(&eng.Case{Kind: "deep", HTML: c03DeepDoc(d, ctx), P: map[string]string{"doc": fmt.Sprintf("probe paragraph under %d nested divs, in %s", d, ctx)}})
		}
	}
	// paragraphs with one hidden inline element among <= 3 (quick) / <= 4 (thorough) visible children
	{
		base := []int{0, 1, 3, 7, 8} // Ts, Tl, b, a-abs, a-js
		ml := 3
		if tier == "thorough" {
			ml = 4
		}
		seqEnum(base, ml, func(seq []int) {
			for at := 0; at <= len(seq); at++ {
				for h := len(c03Inl) - c03Hidden; h < len(c03Inl); h++ {
					full := append(append(append([]int{}, seq[:at]...), h), seq[at:]...)
					var names []string
					for _, x := range full {
						names = append(names, c03Inl[x].name)
					}
					for _, ctx := range c03Contexts {
						for _, sur := range c03Surround {
							emit(&eng.Case{Kind: "para", HTML: c03Doc(full, ctx, sur), P: map[string]string{"doc": fmt.Sprintf("p[%s] in %s, surrounding %s", strings.Join(names, " "), ctx, sur)}})
						}
					}
				}
			}
		})
	}
	// paragraphs whose whole content sits in one inline wrapper (the block's text nodes then share
	// that wrapper as nearest common ancestor): inner sequences of 2..3 (thorough: 4) children
	{
		inner := []int{0, 1, 3, 7, 2} // Ts, Tl, b, a-abs, br
		ml := 3
		if tier == "thorough" {
			ml = 4
		}
		wrappers := []struct{ name, open, close string }{{"strong", "<strong>", "</strong>"}, {"span", "<span>", "</span>"}, {"font", "<font>", "</font>"}, {"a", "<a href=\"http://example.com/l/wrap\">", "</a>"}, {"i-b", "<i><b>", "</b></i>"}}
		seqEnum(inner, ml, func(seq []int) {
			if len(seq) < 2 {
				return
			}
			for _, w := range wrappers {
				if w.name == "a" {
					skip := false
					for _, x := range seq {
						if x == 7 {
							skip = true // no anchor inside an anchor
						}
					}
					if skip {
						continue
					}
				}
				var names []string
				for _, x := range seq {
					names = append(names, c03Inl[x].name)
				}
				for _, ctx := range c03Contexts {
					for _, sur := range c03Surround {
						h := c03Doc(seq, ctx, sur)
						h = strings.Replace(h, "<p>"+c03ProbeInner(seq)+"</p>", "<p>"+w.open+c03ProbeInner(seq)+w.close+"</p>", 1)
						emit(&eng.Case{Kind: "para", HTML: h, P: map[string]string{"doc": fmt.Sprintf("p[%s( %s )] in %s, surrounding %s", w.name, strings.Join(names, " "), ctx, sur)}})
					}
				}
			}
		})
	}
	nsym, maxLen := c03QuickSyms, 4
	if tier == "thorough" {
		nsym, maxLen = len(c03Inl)-c03Hidden, 5
	}
	alpha := make([]int, nsym)
	for i := range alpha {
		alpha[i] = i
	}
	seqEnum(alpha, maxLen, func(seq []int) {
		if len(seq) == 0 {
			return
		}
		var names []string
		for _, s := range seq {
			names = append(names, c03Inl[s].name)
		}
		d := strings.Join(names, " ")
		for _, ctx := range c03Contexts {
			for _, sur := range c03Surround {
				if tier != "thorough" && len(seq) == maxLen && !(sur == "kept" && (ctx == "div" || ctx == "td-data")) && !(sur == "between" && ctx == "li") {
					continue // quick: full-length sequences in three context/surrounding pairs only
				}
				emit(&eng.Case{Kind: "para", HTML: c03Doc(seq, ctx, sur), P: map[string]string{"doc": fmt.Sprintf("p[%s] in %s, surrounding %s", d, ctx, sur)}})
			}
		}
	})
}

var c03Plain = map[string]bool{"b": true, "i": true, "em": true, "strong": true, "span": true, "u": true, "code": true, "font": true, "a": true, "br": true}

// simpleParagraph reports whether p consists only of text, br and plain inline/link elements.
func simpleParagraph(p *html.Node) bool {
	ok := true
	ora.Walk(p, func(n *html.Node) bool {
		if n == p {
			return true
		}
		switch n.Type {
		case html.TextNode:
		case html.ElementNode:
			if !c03Plain[n.Data] {
				ok = false
			}
			for _, a := range n.Attr {
				switch {
				case n.Data == "a" && a.Key == "href":
				case a.Key == "hidden", a.Key == "aria-hidden", a.Key == "style" && ora.HiddenKind(n) != "":
					// a hidden inline element is still an inline element; its words are not visible ones
				default:
					ok = false
				}
			}
		default:
			ok = false
		}
		return ok
	})
	return ok
}

func childDesc(p, n *html.Node) string {
	// the child of p that contains n
	c := n
	for c.Parent != nil && c.Parent != p {
		c = c.Parent
	}
	if c.Type == html.TextNode {
		return "#text"
	}
	s := c.Data
	if c.Data == "a" && strings.HasPrefix(ora.AttrV(c, "href"), "javascript:") {
		s += "[js"
		if c.FirstChild != nil && c.FirstChild == c.LastChild && c.FirstChild.Type == html.TextNode {
			s += ",1text"
		}
		s += "]"
	}
	return s
}

func c03Check(c *eng.Case) *eng.Outcome {
	o := &eng.Outcome{}
	a := analyse(c, o)
	if a == nil {
		return o
	}
	textSet := ora.Set(a.TextWords)
	htmlSet := ora.Set(a.HTMLWords)
	judged := 0
	for _, p := range ora.Elements(a.Doc, "p") {
		if !simpleParagraph(p) {
			continue
		}
		type wn struct {
			w string
			n *html.Node
		}
		var ws []wn
		for _, tn := range ora.SrcVisibleText(p) {
			for _, w := range ora.Words(tn.Data) {
				ws = append(ws, wn{w, tn})
			}
		}
		if len(ws) < 2 {
			continue
		}
		if c.Kind == "xpara" {
			// documents of other checks repeat words (labels, numbers): judge only paragraphs whose
			// words all occur once in the document
			dup := false
			for _, x := range ws {
				if a.SrcDup[x.w] {
					dup = true
				}
			}
			if dup {
				continue
			}
			judged++
		}
		for vi, set := range []map[string]bool{textSet, htmlSet} {
			view, pre := "text", "split"
			if vi == 1 {
				// the same paragraph in the distilled HTML: selection must not cut it there either
				view, pre = "HTML", "split-html"
			}
			textSet := set
			kept := 0
			for _, x := range ws {
				if textSet[x.w] {
					kept++
				}
			}
			if kept == 0 || kept == len(ws) {
				continue
			}
			// find the first boundary
			for i := 1; i < len(ws); i++ {
				if textSet[ws[i-1].w] != textSet[ws[i].w] {
					how := "kept|lost"
					if !textSet[ws[i-1].w] {
						how = "lost|kept"
					}
					o.V(fmt.Sprintf(pre+":%s:%s|%s", how, childDesc(p, ws[i-1].n), childDesc(p, ws[i].n)),
						"paragraph cut in the middle of the distilled "+view+": %d of %d words kept; boundary between %q and %q (%s); %s", kept, len(ws), ws[i-1].w, ws[i].w, how, c.Get("doc"))
					break
				}
			}
		}
	}
	// non-trivial: probe has >= 2 text leaves separated by an element
	d := c.Get("doc")
	o.Nontrivial = strings.Count(d, " ") >= 6 && (strings.Contains(d, "Ts ") || strings.Contains(d, "Tl ")) && strings.ContainsAny(d, "bsfca")
	if c.Kind == "xpara" {
		o.Nontrivial = judged >= 1 && len(a.TextWords) >= 20 && len(a.TextWords) < len(a.SrcWords)
	}
	probeKept := "?"
	o.Class = probeKept
	if ps := ora.Elements(a.Doc, "p"); len(ps) > 0 {
		o.Class = fmt.Sprintf("text-kept=%s", pct(len(a.TextWords), len(a.SrcWords)))
	}
	return o
}

func init() {
	eng.Register(&eng.Prop{
		ID:        "C03",
		DesignRef: "§5 C03",
		Rule: "one probe paragraph whose children are every sequence of length <= 4 over 16 inline symbols (quick; full-length sequences in 3 of the 18 context/surrounding pairs, shorter ones in all 18) / <= 5 over 21 symbols in all 18 pairs (thorough): text short/long, br, b, span, font, code, a[abs], a[javascript:] with one text child, a[javascript:] with element child, nested b>i, a[javascript:] with text + element child, a[javascript:] with text + br + text, a[href=#], b and a ending in a br (+ i, em, strong, u, a[rel]); " +
			"contexts {body, div, li, blockquote, layout-table cell, data-table cell} x surroundings {among kept paragraphs, among dropped link clusters, between}; plus paragraphs of <= 3 (quick) / <= 4 (thorough) children over {text short/long, b, a[abs], a[javascript:]} with one hidden inline element (hidden attribute, display:none, aria-hidden, empty hidden span) at every position, in all 18 pairs; plus paragraphs whose whole content (2..3 / 2..4 children over text short/long, b, a, br) sits inside one inline wrapper (strong, span, font, a, i>b); plus a fixed mixed paragraph at every nesting depth 1..300." + crossRule + " (there, paragraphs whose words all occur once) Oracle: for every <p> of the parsed input built only from text, br and plain inline/link elements, its visible words are all in Text or none is, and likewise all or none of them in the distilled HTML. " +
			"Non-trivial = probe with >= 2 children including a text leaf and an element.",
		Enumerate: c03Enumerate,
		Check:     c03Check,
		Prepare:   func(tier string) { CrossCorpus(tier) },
		Bounds: func(tier string) map[string]any {
			if tier == "thorough" {
				return map[string]any{"decorated_variants": decorBound(tier), "max_children": 5, "inline_symbols": len(c03Inl), "contexts": 6, "surroundings": 3}
			}
			return map[string]any{"decorated_variants": decorBound(tier), "max_children": 4, "inline_symbols": c03QuickSyms, "contexts": 6, "surroundings": 3, "full_length_pairs": 3}
		},
	})
}
