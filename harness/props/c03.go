package props

import (
	"fmt"
	"strings"

	"golang.org/x/net/html"
	"verif/harness/eng"
	"verif/harness/ora"
)

// C03 — a simple paragraph is kept or dropped as a whole.

type inl struct {
	name string
	gen  func(t *ora.Tok) string
}

func wrapInl(tag string) func(t *ora.Tok) string {
	return func(t *ora.Tok) string { return "<" + tag + ">" + t.W(2) + "</" + tag + ">" }
}

var c03Inl = []inl{
	{"Ts", func(t *ora.Tok) string { return t.W(2) }},
	{"Tl", func(t *ora.Tok) string { return t.W(11) }},
	{"br", func(t *ora.Tok) string { return "<br>" }},
	{"b", wrapInl("b")},
	{"span", wrapInl("span")},
	{"font", wrapInl("font")},
	{"code", wrapInl("code")},
	{"a-abs", func(t *ora.Tok) string { return "<a href=\"http://example.com/l/" + t.U() + "\">" + t.W(2) + "</a>" }},
	{"a-js", func(t *ora.Tok) string { return "<a href=\"javascript:void(0)\">" + t.W(2) + "</a>" }},
	{"a-jsb", func(t *ora.Tok) string { return "<a href=\"javascript:go(1)\"><b>" + t.W(1) + "</b></a>" }},
	{"b-i", func(t *ora.Tok) string { return "<b><i>" + t.W(1) + "</i> " + t.W(1) + "</b>" }},
	{"a-js2", func(t *ora.Tok) string {
		return "<a href=\"javascript:void(0)\">" + t.W(1) + "<i>" + t.W(1) + "</i></a>"
	}},
	{"a-js3", func(t *ora.Tok) string { return "<a href=\"javascript:void(0)\">" + t.W(1) + "<br>" + t.W(1) + "</a>" }},
	{"b-br-last", func(t *ora.Tok) string { return "<b>" + t.W(2) + "<br></b>" }},
	{"a-br-last", func(t *ora.Tok) string {
		return "<a href=\"http://example.com/l/" + t.U() + "\">" + t.W(1) + "<br></a>"
	}},
	{"a-hash", func(t *ora.Tok) string { return "<a href=\"#\">" + t.W(2) + "</a>" }},
	// thorough only:
	{"i", wrapInl("i")},
	{"em", wrapInl("em")},
	{"strong", wrapInl("strong")},
	{"u", wrapInl("u")},
	{"a-rel", func(t *ora.Tok) string { return "<a href=\"rel/" + t.U() + ".html\">" + t.W(2) + "</a>" }},
}

const c03QuickSyms = 16

var c03Contexts = []string{"body", "div", "li", "blockquote", "td-layout", "td-data"}
var c03Surround = []string{"kept", "dropped", "between"}

func c03Doc(seq []int, ctx, sur string) string {
	t := &ora.Tok{}
	var probe strings.Builder
	probe.WriteString("<p>")
	for i, s := range seq {
		if i > 0 {
			probe.WriteByte(' ')
		}
		probe.WriteString(c03Inl[s].gen(t))
	}
	probe.WriteString("</p>")
	p := probe.String()
	switch ctx {
	case "div":
		p = "<div>" + p + "</div>"
	case "li":
		p = "<ul><li>" + p + "</li></ul>"
	case "blockquote":
		p = "<blockquote>" + p + "</blockquote>"
	case "td-layout":
		p = "<table><tr><td>" + p + "</td></tr></table>"
	case "td-data":
		p = "<table><tr><th>" + t.W(1) + "</th><th>" + t.W(1) + "</th></tr><tr><td>" + p + "</td><td>" + t.W(1) + "</td></tr></table>"
	}
	pc := func() string { return "<p>" + t.W(21) + "</p>" }
	pb := func() string {
		return "<div class=\"links\"><a href=\"http://example.com/l/" + t.U() + "\">" + t.W(2) + "</a> <a href=\"http://example.com/l/" + t.U() + "\">" + t.W(2) + "</a> <a href=\"http://example.com/l/" + t.U() + "\">" + t.W(1) + "</a></div>"
	}
	var body string
	switch sur {
	case "kept":
		body = "<div class=\"main\">" + pc() + pc() + p + pc() + "</div>"
	case "dropped":
		body = pb() + p + pb() + "<div class=\"main\">" + pc() + pc() + pc() + "</div>"
	case "between":
		body = "<div class=\"main\">" + pc() + pc() + pc() + p + "</div>" + pb() + pb()
	}
	if ctx == "body" && sur == "kept" {
		body = pc() + pc() + p + pc()
	}
	return "<html><head><title>" + ora.DefaultTitle + "</title></head><body>" + body + "</body></html>"
}

// c03DeepDoc nests the probe paragraph under `depth` plain div wrappers.
func c03DeepDoc(depth int, ctx string) string {
	t := &ora.Tok{}
	p := "<p>" + t.W(11) + " <b>" + t.W(2) + "</b> " + t.W(6) + " <i>" + t.W(2) + "</i> <a href=\"http://example.com/l/x\">" + t.W(2) + "</a> " + t.W(5) + "</p>"
	switch ctx {
	case "blockquote":
		p = "<blockquote>" + p + "</blockquote>"
	case "td-layout":
		p = "<table><tr><td>" + p + "</td></tr></table>"
	}
	pc := func() string { return "<p>" + t.W(21) + "</p>" }
	return "<html><head><title>" + ora.DefaultTitle + "</title></head><body><div class=\"main\">" + pc() + pc() + strings.Repeat("<div>", depth) + p + strings.Repeat("</div>", depth) + pc() + "</div></body></html>"
}

func c03Enumerate(tier string, emit func(*eng.Case)) {
	crossEmit("C03", tier, "xpara", 1, emit)
	emit = withDecor(decorEvery(tier), emit)
	// every nesting depth up to 300 (a walker or clone that gives up at some depth cuts a paragraph)
	maxDepth := 300
	for d := 1; d <= maxDepth; d++ {
		for _, ctx := range []string{"div", "blockquote", "td-layout"} {
			if tier != "thorough" && ctx != "div" && d%2 == 1 {
				continue
			}
			emit(&eng.Case{Kind: "deep", HTML: c03DeepDoc(d, ctx), P: map[string]string{"doc": fmt.Sprintf("probe paragraph under %d nested divs, in %s", d, ctx)}})
		}
	}
	nsym, maxLen := c03QuickSyms, 4
	if tier == "thorough" {
		nsym, maxLen = len(c03Inl), 5
	}
	alpha := make([]int, nsym)
	for i := range alpha {
		alpha[i] = i
	}
	seqEnum(alpha, maxLen, func(seq []int) {
		if len(seq) == 0 {
			return
		}
		var names []string
		for _, s := range seq {
			names = append(names, c03Inl[s].name)
		}
		d := strings.Join(names, " ")
		for _, ctx := range c03Contexts {
			for _, sur := range c03Surround {
				if tier != "thorough" && len(seq) == maxLen && !(sur == "kept" && (ctx == "div" || ctx == "td-data")) && !(sur == "between" && ctx == "li") {
					continue // quick: full-length sequences in three context/surrounding pairs only
				}
				emit(&eng.Case{Kind: "para", HTML: c03Doc(seq, ctx, sur), P: map[string]string{"doc": fmt.Sprintf("p[%s] in %s, surrounding %s", d, ctx, sur)}})
			}
		}
	})
}

var c03Plain = map[string]bool{"b": true, "i": true, "em": true, "strong": true, "span": true, "u": true, "code": true, "font": true, "a": true, "br": true}

// simpleParagraph reports whether p consists only of text, br and plain inline/link elements.
func simpleParagraph(p *html.Node) bool {
	ok := true
	ora.Walk(p, func(n *html.Node) bool {
		if n == p {
			return true
		}
		switch n.Type {
		case html.TextNode:
		case html.ElementNode:
			if !c03Plain[n.Data] {
				ok = false
			}
			for _, a := range n.Attr {
				if !(n.Data == "a" && a.Key == "href") {
					ok = false
				}
			}
		default:
			ok = false
		}
		return ok
	})
	return ok
}

func childDesc(p, n *html.Node) string {
	// the child of p that contains n
	c := n
	for c.Parent != nil && c.Parent != p {
		c = c.Parent
	}
	if c.Type == html.TextNode {
		return "#text"
	}
	s := c.Data
	if c.Data == "a" && strings.HasPrefix(ora.AttrV(c, "href"), "javascript:") {
		s += "[js"
		if c.FirstChild != nil && c.FirstChild == c.LastChild && c.FirstChild.Type == html.TextNode {
			s += ",1text"
		}
		s += "]"
	}
	return s
}

func c03Check(c *eng.Case) *eng.Outcome {
	o := &eng.Outcome{}
	a := analyse(c, o)
	if a == nil {
		return o
	}
	textSet := ora.Set(a.TextWords)
	judged := 0
	for _, p := range ora.Elements(a.Doc, "p") {
		if !simpleParagraph(p) {
			continue
		}
		type wn struct {
			w string
			n *html.Node
		}
		var ws []wn
		for _, tn := range ora.SrcVisibleText(p) {
			for _, w := range ora.Words(tn.Data) {
				ws = append(ws, wn{w, tn})
			}
		}
		if len(ws) < 2 {
			continue
		}
		if c.Kind == "xpara" {
			// documents of other checks repeat words (labels, numbers): judge only paragraphs whose
			// words all occur once in the document
			dup := false
			for _, x := range ws {
				if a.SrcDup[x.w] {
					dup = true
				}
			}
			if dup {
				continue
			}
			judged++
		}
		kept := 0
		for _, x := range ws {
			if textSet[x.w] {
				kept++
			}
		}
		if kept == 0 || kept == len(ws) {
			continue
		}
		// find the first boundary
		for i := 1; i < len(ws); i++ {
			if textSet[ws[i-1].w] != textSet[ws[i].w] {
				how := "kept|lost"
				if !textSet[ws[i-1].w] {
					how = "lost|kept"
				}
				o.V(fmt.Sprintf("split:%s:%s|%s", how, childDesc(p, ws[i-1].n), childDesc(p, ws[i].n)),
					"paragraph cut in the middle: %d of %d words kept; boundary between %q and %q (%s); %s", kept, len(ws), ws[i-1].w, ws[i].w, how, c.Get("doc"))
				break
			}
		}
	}
	// non-trivial: probe has >= 2 text leaves separated by an element
	d := c.Get("doc")
	o.Nontrivial = strings.Count(d, " ") >= 6 && (strings.Contains(d, "Ts ") || strings.Contains(d, "Tl ")) && strings.ContainsAny(d, "bsfca")
	if c.Kind == "xpara" {
		o.Nontrivial = judged >= 1 && len(a.TextWords) >= 20 && len(a.TextWords) < len(a.SrcWords)
	}
	probeKept := "?"
	o.Class = probeKept
	if ps := ora.Elements(a.Doc, "p"); len(ps) > 0 {
		o.Class = fmt.Sprintf("text-kept=%s", pct(len(a.TextWords), len(a.SrcWords)))
	}
	return o
}

func init() {
	eng.Register(&eng.Prop{
		ID:        "C03",
		DesignRef: "§5 C03",
		Rule: "one probe paragraph whose children are every sequence of length <= 4 over 16 inline symbols (quick; full-length sequences in 3 of the 18 context/surrounding pairs, shorter ones in all 18) / <= 5 over 21 symbols in all 18 pairs (thorough): text short/long, br, b, span, font, code, a[abs], a[javascript:] with one text child, a[javascript:] with element child, nested b>i, a[javascript:] with text + element child, a[javascript:] with text + br + text, a[href=#], b and a ending in a br (+ i, em, strong, u, a[rel]); " +
			"contexts {body, div, li, blockquote, layout-table cell, data-table cell} x surroundings {among kept paragraphs, among dropped link clusters, between}; plus a fixed mixed paragraph at every nesting depth 1..300." + crossRule + " (there, paragraphs whose words all occur once) Oracle: for every <p> of the parsed input built only from text, br and plain inline/link elements, its visible words are all in Text or none is. " +
			"Non-trivial = probe with >= 2 children including a text leaf and an element.",
		Enumerate: c03Enumerate,
		Check:     c03Check,
		Prepare:   func(tier string) { CrossCorpus(tier) },
		Bounds: func(tier string) map[string]any {
			if tier == "thorough" {
				return map[string]any{"decorated_variants": decorBound(tier), "max_children": 5, "inline_symbols": len(c03Inl), "contexts": 6, "surroundings": 3}
			}
			return map[string]any{"decorated_variants": decorBound(tier), "max_children": 4, "inline_symbols": c03QuickSyms, "contexts": 6, "surroundings": 3, "full_length_pairs": 3}
		},
	})
}
