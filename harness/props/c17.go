package props

import (
	"fmt"
	nurl "net/url"
	"strings"

	"verif/harness/eng"
	"verif/harness/ora"
)

// C17 — conventional pagers are resolved correctly. Exhaustive over N, k, URL families and
// pager markups; oracle is the k±1 rule.

type pagerFam struct {
	name string
	link func(i int) string // absolute URL of page i
}

var c17Fams = []pagerFam{
	{"query-page", func(i int) string { return fmt.Sprintf("http://example.com/story?page=%d", i) }},
	{"query-p-x", func(i int) string { return fmt.Sprintf("http://example.com/story?p=%d&x=1", i) }},
	{"path-page", func(i int) string { return fmt.Sprintf("http://example.com/story/page/%d", i) }},
	{"path-last", func(i int) string { return fmt.Sprintf("http://example.com/story/%d", i) }},
	{"suffix-html", func(i int) string { return fmt.Sprintf("http://example.com/story-%d.html", i) }},
	{"suffix-htm", func(i int) string { return fmt.Sprintf("http://example.com/story_%d.htm", i) }},
	{"query-deep", func(i int) string { return fmt.Sprintf("http://example.com/news/2020/story.php?id=77&pg=%d", i) }},
	{"path-mid", func(i int) string { return fmt.Sprintf("http://example.com/story/%d/full", i) }},
	{"suffix-padded", func(i int) string { return fmt.Sprintf("http://example.com/some-title-%02d.html", i) }},
	{"path-padded", func(i int) string { return fmt.Sprintf("http://example.com/holiday/%02d", i) }},
	{"dir-slash-query", func(i int) string { return fmt.Sprintf("http://example.com/story/view/?page=%d", i) }},
	{"path-escaped", func(i int) string { return fmt.Sprintf("http://example.com/story/caf%%C3%%A9/%d", i) }},
	{"dir-space-query", func(i int) string { return fmt.Sprintf("http://example.com/my%%20story/view?page=%d", i) }},
	{"suffix-nonascii", func(i int) string { return fmt.Sprintf("http://example.com/story/caf\u00e9-%d.html", i) }},
}

var (
	c17Seps  = []string{" ", " | ", "", "|", ", ", "/"}
	c17Wraps = []string{"", "li", "span", "nav-li-pretty"}
	c17Cur   = []string{"plain", "b", "strong", "span", "paren"}
	c17Href  = []string{"abs", "rootrel"}
	c17Deco  = []string{"", "[]", "()", "[ ]"}
)

func c17Article(t *ora.Tok) string {
	return "<div class=\"article\"><p>" + t.W(22) + "</p><p>" + t.W(25) + "</p><p>" + t.W(21) + "</p></div>"
}

func c17Pager(fam pagerFam, n, k int, sep, wrap, cur, href, deco, label string) string {
	var items []string
	for i := 1; i <= n; i++ {
		var it string
		if i == k {
			switch cur {
			case "plain":
				it = fmt.Sprint(i)
			case "b":
				it = fmt.Sprintf("<b>%d</b>", i)
			case "strong":
				it = fmt.Sprintf("<strong>%d</strong>", i)
			case "span":
				it = fmt.Sprintf("<span class=\"current\">%d</span>", i)
			case "paren":
				it = fmt.Sprintf("(%d)", i)
			}
		} else {
			h := fam.link(i)
			if href == "rootrel" {
				h = strings.TrimPrefix(h, "http://example.com")
			}
			label := fmt.Sprint(i)
			switch deco {
			case "[]":
				label = "[" + label + "]"
			case "()":
				label = "(" + label + ")"
			case "[ ]":
				label = "[ " + label + " ]"
			}
			it = fmt.Sprintf("<a href=\"%s\">%s</a>", strings.ReplaceAll(h, "&", "&amp;"), label)
		}
		if wrap == "nav-li-pretty" {
			it = "\n    <li class=\"page-item\">\n      " + it + "\n    </li>"
		} else if wrap != "" {
			it = "<" + wrap + ">" + it + "</" + wrap + ">"
		}
		items = append(items, it)
	}
	inner := strings.Join(items, sep)
	if wrap == "li" {
		return "<ul class=\"pages\">" + inner + "</ul>"
	}
	if wrap == "nav-li-pretty" {
		return "<nav aria-label=\"pages\">\n  <ul class=\"pages\">" + inner + "\n  </ul>\n</nav>"
	}
	lead := ""
	switch label {
	case "text":
		lead = fmt.Sprintf("Page %d of %d: ", k, n)
	case "span":
		lead = fmt.Sprintf("<span class=\"info\">Page %d of %d</span> ", k, n)
	case "count":
		lead = fmt.Sprintf("%d pages: ", n)
	}
	return "<div class=\"pages\">" + lead + inner + "</div>"
}

func c17Doc(c *eng.Case) {
	var n, k, fi int
	fmt.Sscanf(c.P["n"], "%d", &n)
	fmt.Sscanf(c.P["k"], "%d", &k)
	fmt.Sscanf(c.P["fam"], "%d", &fi)
	fam := c17Fams[fi]
	t := &ora.Tok{}
	pager := c17Pager(fam, n, k, c.P["sep"], c.P["wrap"], c.P["cur"], c.P["href"], c.P["deco"], c.P["label"])
	if c.Algo == 0 { // PrevNext: labelled anchors
		var pn []string
		if k > 1 {
			pn = append(pn, fmt.Sprintf("<a href=\"%s\">%s</a>", strings.ReplaceAll(fam.link(k-1), "&", "&amp;"), c.P["prevlabel"]))
		}
		if k < n {
			pn = append(pn, fmt.Sprintf("<a href=\"%s\">Next</a>", strings.ReplaceAll(fam.link(k+1), "&", "&amp;")))
		}
		pn1 := "<div class=\"nav\">" + strings.Join(pn, " ") + "</div>"
		switch c.P["pnpos"] {
		case "only":
			pager = pn1
		case "before":
			pager = pn1 + pager
		default:
			pager = pager + pn1
		}
	}
	body := c17Article(t) + pager
	if c.P["pos"] == "before" {
		body = pager + c17Article(t)
	}
	c.HTML = "<html><head><title>Plain story heading words</title></head><body>" + body + "</body></html>"
	c.URL = fam.link(k)
	if c.P["slash"] == "1" {
		c.URL += "/"
	}
}

func c17Enumerate(tier string, emit func(*eng.Case)) {
	emit = withDecor(decorEvery(tier), emit)
	for fi := range c17Fams {
		isPath := strings.HasPrefix(c17Fams[fi].name, "path")
		for n := 2; n <= 12; n++ {
			for k := 1; k <= n; k++ {
				for _, sep := range c17Seps {
					for _, wrap := range c17Wraps {
						for _, cur := range c17Cur {
							for _, href := range c17Href {
								for _, deco := range c17Deco {
									for _, pos := range []string{"after", "before"} {
										for _, slash := range []string{"0", "1"} {
											if slash == "1" && !isPath {
												continue
											}
											if tier != "thorough" {
												// quick: all (fam,n,k) with each markup dimension varied one or two at a time
												dev := 0
												for _, b := range []bool{sep != " ", wrap != "", cur != "plain", href != "abs", pos != "after", slash != "0", deco != ""} {
													if b {
														dev++
													}
												}
												if dev > 1 {
													continue
												}
											}
											c := &eng.Case{Kind: "pagenumber", Algo: 1, P: map[string]string{
												"n": fmt.Sprint(n), "k": fmt.Sprint(k), "fam": fmt.Sprint(fi), "sep": sep, "wrap": wrap, "cur": cur, "href": href, "pos": pos, "slash": slash, "deco": deco}}
											c17Doc(c)
											emit(c)
										}
									}
								}
							}
						}
					}
				}
				// a label in front of the numbers ("Page k of N", "N pages") in the plain markup
				for _, label := range []string{"text", "span", "count"} {
					for _, sep := range []string{" ", " | "} {
						c := &eng.Case{Kind: "pagenumber", Algo: 1, P: map[string]string{
							"n": fmt.Sprint(n), "k": fmt.Sprint(k), "fam": fmt.Sprint(fi), "sep": sep, "wrap": "", "cur": "plain", "href": "abs", "pos": "after", "slash": "0", "deco": "", "label": label}}
						c17Doc(c)
						emit(c)
					}
				}
				// PrevNext
				for _, pl := range []string{"Prev", "Previous"} {
					for _, pnpos := range []string{"only", "after", "before"} {
						for _, pos := range []string{"after", "before"} {
							if tier != "thorough" && pos == "before" && pnpos != "only" {
								continue
							}
							c := &eng.Case{Kind: "prevnext", Algo: 0, P: map[string]string{
								"n": fmt.Sprint(n), "k": fmt.Sprint(k), "fam": fmt.Sprint(fi), "sep": " ", "wrap": "", "cur": "plain", "href": "abs", "pos": pos, "slash": "0",
								"prevlabel": pl, "pnpos": pnpos}}
							c17Doc(c)
							emit(c)
						}
					}
				}
			}
		}
	}
}

// normPageURL: one trailing slash dropped, percent-escapes decoded (the library may report either
// spelling of an escaped path; which one is not part of the property).
func normPageURL(s string) string {
	if u, err := nurl.Parse(s); err == nil && u.Host != "" {
		// the slash that ends the path, also in front of a query
		u.Path = strings.TrimSuffix(u.Path, "/")
		u.RawPath = ""
		s = u.String()
	}
	s = strings.TrimSuffix(s, "/")
	if d, err := nurl.PathUnescape(s); err == nil {
		return d
	}
	return s
}

func c17Check(c *eng.Case) *eng.Outcome {
	o := &eng.Outcome{}
	var n, k, fi int
	fmt.Sscanf(c.P["n"], "%d", &n)
	fmt.Sscanf(c.P["k"], "%d", &k)
	fmt.Sscanf(c.P["fam"], "%d", &fi)
	fam := c17Fams[fi]
	_, res, err, pi := ora.Run(c)
	if pi != nil {
		o.Skipped = pi.Sig()
		return o
	}
	if err != nil {
		o.Skipped = "error:" + err.Error()
		return o
	}
	wantNext, wantPrev := "", ""
	if k < n {
		wantNext = fam.link(k + 1)
	}
	if k > 1 {
		wantPrev = fam.link(k - 1)
	}
	gotNext, gotPrev := res.PaginationInfo.NextPage, res.PaginationInfo.PrevPage
	o.Nontrivial = k > 1 && k < n
	o.Class = fmt.Sprintf("%s next=%v prev=%v", c.Kind, gotNext != "", gotPrev != "")
	markup := fmt.Sprintf("sep=%q,wrap=%s,cur=%s,href=%s,pos=%s,slash=%s,deco=%s,label=%s", c.P["sep"], c.P["wrap"], c.P["cur"], c.P["href"], c.P["pos"], c.P["slash"], c.P["deco"], c.P["label"])
	if c.Kind == "pagenumber" {
		if normPageURL(gotNext) != normPageURL(wantNext) {
			o.V(fmt.Sprintf("pagenumber-next/%s/%s", fam.name, markup), "N=%d k=%d: NextPage=%q want %q (page URL %s)", n, k, gotNext, wantNext, c.URL)
		}
		if normPageURL(gotPrev) != normPageURL(wantPrev) {
			o.V(fmt.Sprintf("pagenumber-prev/%s/%s", fam.name, markup), "N=%d k=%d: PrevPage=%q want %q (page URL %s)", n, k, gotPrev, wantPrev, c.URL)
		}
	} else {
		// only demanded when the labelled anchor exists
		if wantNext != "" && normPageURL(gotNext) != normPageURL(wantNext) {
			o.V(fmt.Sprintf("prevnext-next/%s/%s", fam.name, c.P["pnpos"]), "N=%d k=%d: NextPage=%q want %q", n, k, gotNext, wantNext)
		}
		if wantPrev != "" && normPageURL(gotPrev) != normPageURL(wantPrev) {
			o.V(fmt.Sprintf("prevnext-prev/%s/%s/%s", fam.name, c.P["prevlabel"], c.P["pnpos"]), "N=%d k=%d: PrevPage=%q want %q", n, k, gotPrev, wantPrev)
		}
	}
	return o
}

func init() {
	eng.Register(&eng.Prop{
		ID:        "C17",
		DesignRef: "§5 C17",
		Rule: "every (N in 2..12, k in 1..N) x 14 URL families (one whose path ends in a slash in front of the query, two with zero-padded numbers, three with an escaped or non-ASCII path) x pager markups (separator incl. ones glued to the numbers, wrapper, current-page decoration, absolute/root-relative hrefs, bracketed link labels [i] (i) [ i ], a 'Page k of N' / 'N pages' label in front of the numbers, pager before/after article, trailing slash on path families) for PageNumber; " +
			"x {Prev,Previous} x 3 placements of the labelled anchors for PrevNext; quick varies at most one markup dimension at a time, thorough takes the full product. Oracle: next = link(k+1), prev = link(k-1). " +
			"Non-trivial = inner pages (1<k<N), where both links are demanded.",
		Enumerate: c17Enumerate,
		Check:     c17Check,
		Bounds: func(tier string) map[string]any {
			return map[string]any{"decorated_variants": decorBound(tier), "N": "2..12", "k": "1..N", "families": len(c17Fams), "markup_deviations": map[string]any{"quick": 1, "thorough": "full product"}[tier]}
		},
		Assumptions: []string{"page-1 link carries the page parameter like all others (the statement's 'all follow one URL pattern')"},
	})
}
