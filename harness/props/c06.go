package props

import (
	"fmt"
	nurl "net/url"
	"regexp"
	"strings"

	"golang.org/x/net/html"
	"golang.org/x/net/html/atom"
	"verif/harness/eng"
	"verif/harness/ora"
)

// C06 — with a page URL, every link and media URL in the output is absolute.

type refForm struct {
	name string
	gen  func(m string) string
}

var c06Forms = []refForm{
	{"default-abs", func(m string) string { return "http://example.com/d/" + m + ".jpg" }},
	{"path-rel", func(m string) string { return "rel/" + m + ".jpg" }},
	{"dot", func(m string) string { return "./" + m + ".jpg" }},
	{"dotdot", func(m string) string { return "../up/" + m + ".jpg" }},
	{"root-rel", func(m string) string { return "/root/" + m + ".jpg" }},
	{"scheme-rel", func(m string) string { return "//other.example/x/" + m + ".jpg" }},
	{"query-only", func(m string) string { return "?q=" + m }},
	{"fragment", func(m string) string { return "#" + m }},
	{"data", func(m string) string { return "data:text/plain," + m }},
	{"javascript", func(m string) string { return "javascript:void('" + m + "')" }},
	{"https-abs", func(m string) string { return "https://abs.example/x/" + m + ".jpg" }},
	{"unparseable", func(m string) string { return "%zz/" + m + ".jpg" }},
	{"rel-query", func(m string) string { return "rel/" + m + ".jpg?a=1&b=2" }},
	{"comma-path", func(m string) string { return "/cdn/w_400,c_fill/" + m + ".jpg" }},
	{"comma-rel", func(m string) string { return "cdn/w_400,h_300/" + m + ".jpg" }},
	{"embeds-url", func(m string) string { return "thumb.php?m=" + m + "&src=http://cdn.example/x.jpg" }},
	{"embeds-url-root", func(m string) string { return "/web/2020/" + m + "/https://archived.example/y.jpg" }},
	{"empty", func(m string) string { return "" }},
}

// positions: each is a hole in the host document
var c06Positions = []string{"a-para", "a-li", "a-caption", "a-cell", "img-src", "img-srcset1", "img-srcset2", "img-lazy", "source-srcset", "video-src", "video-poster", "vsource-src", "track-src", "img-in-table", "figure-img", "picture-img", "a-block-h2", "a-inline-block", "video-only-poster", "a-wrap-em", "a-wrap-span-li", "a-symbol", "a-symbol-li"}

func c06Doc(assign map[int]int) string {
	t := &ora.Tok{}
	u := func(pos string) string {
		for i, p := range c06Positions {
			if p == pos {
				return strings.ReplaceAll(c06Forms[assign[i]].gen(fmt.Sprintf("u%dz", i+1)), "&", "&amp;")
			}
		}
		panic(pos)
	}
	pc := func() string { return "<p>" + t.W(21) + "</p>" }
	var sb strings.Builder
	sb.WriteString("<html><head><title>" + ora.DefaultTitle + "</title></head><body><div class=\"main\">")
	sb.WriteString(pc())
	sb.WriteString("<p>" + t.W(10) + " <a href=\"" + u("a-para") + "\">" + t.W(2) + "</a> " + t.W(9) + "</p>")
	sb.WriteString("<ul><li>" + t.W(9) + " <a href=\"" + u("a-li") + "\">" + t.W(1) + "</a></li><li>" + t.W(10) + "</li></ul>")
	sb.WriteString(pc())
	sb.WriteString("<img src=\"" + u("img-src") + "\" width=\"400\" height=\"300\">" + pc())
	sb.WriteString("<img src=\"http://example.com/d/fixed1.jpg\" srcset=\"" + u("img-srcset1") + " 1x, " + u("img-srcset2") + " 2x\" width=\"400\" height=\"300\">" + pc())
	sb.WriteString("<img data-src=\"" + u("img-lazy") + "\" class=\"lazy\" width=\"400\" height=\"300\">" + pc())
	sb.WriteString("<picture><source srcset=\"" + u("source-srcset") + " 1x\"><img src=\"" + u("picture-img") + "\" width=\"400\" height=\"300\"></picture>" + pc())
	sb.WriteString("<figure><img src=\"" + u("figure-img") + "\" width=\"400\" height=\"300\"><figcaption>" + t.W(3) + " <a href=\"" + u("a-caption") + "\">" + t.W(2) + "</a></figcaption></figure>" + pc())
	sb.WriteString("<video src=\"" + u("video-src") + "\" poster=\"" + u("video-poster") + "\" width=\"400\" height=\"300\"><source src=\"" + u("vsource-src") + "\"><track src=\"" + u("track-src") + "\"></video>" + pc())
	sb.WriteString("<h2><a style=\"display:block\" href=\"" + u("a-block-h2") + "\">" + t.W(4) + "</a></h2>" + pc())
	sb.WriteString("<div><a style=\"display: inline-block\" href=\"" + u("a-inline-block") + "\">" + t.W(18) + "</a></div>" + pc())
	sb.WriteString("<h3><a href=\"" + u("a-wrap-em") + "\"><em>" + t.W(5) + "</em></a></h3>" + pc())
	sb.WriteString("<ul><li><a href=\"" + u("a-wrap-span-li") + "\"><span>" + t.W(12) + "</span></a></li><li>" + t.W(11) + "</li></ul>" + pc())
	// anchors whose text has no word character (an arrow, a pilcrow): the block's only links
	sb.WriteString("<p>" + t.W(19) + " <a href=\"" + u("a-symbol") + "\">\u2192</a></p>" + pc())
	sb.WriteString("<ul><li>" + t.W(12) + " <a href=\"" + u("a-symbol-li") + "\">\u00b6</a></li><li>" + t.W(11) + "</li></ul>" + pc())
	sb.WriteString("<video poster=\"" + u("video-only-poster") + "\" width=\"400\" height=\"300\"></video>" + pc())
	sb.WriteString("<table><tr><th>" + t.W(1) + "</th><th>" + t.W(1) + "</th></tr><tr><td>" + t.W(1) + " <img src=\"" + u("img-in-table") + "\"></td><td><a href=\"" + u("a-cell") + "\">" + t.W(1) + "</a></td></tr><tr><td>" + t.W(1) + "</td><td>" + t.W(1) + "</td></tr></table>" + pc())
	sb.WriteString("</div></body></html>")
	return sb.String()
}

var c06PageURLs = []string{
	"http://example.com/a/b/c.html?x=1",
	"https://example.com/",
	"http://example.com:8080/dir/",
	"http://example.com/a/b",
}

func c06Enumerate(tier string, emit func(*eng.Case)) {
	own := withDecor(decorEvery(tier), emit)
	maxK := 2
	if tier == "thorough" {
		maxK = 3
	}
	nPos, nForm := len(c06Positions), len(c06Forms)
	var rec func(start int, assign map[int]int, k int)
	rec = func(start int, assign map[int]int, k int) {
		for ui, pu := range c06PageURLs {
			if tier != "thorough" && k == 2 && ui >= 2 {
				continue // quick: pairs under two of the four page URLs
			}
			if k == 3 && ui >= 1 {
				continue // thorough: triples under the first page URL (2.9e7 documents otherwise)
			}
			var d []string
			for i := 0; i < nPos; i++ {
				if f, ok := assign[i]; ok {
					d = append(d, c06Positions[i]+"="+c06Forms[f].name)
				}
			}
			_ = ui
			own(&eng.Case{Kind: "urls", HTML: c06Doc(assign), URL: pu, P: map[string]string{"doc": strings.Join(d, ", ")}})
		}
		if k == maxK {
			return
		}
		for p := start; p < nPos; p++ {
			for f := 1; f < nForm; f++ {
				a2 := map[int]int{}
				for k, v := range assign {
					a2[k] = v
				}
				a2[p] = f
				rec(p+1, a2, k+1)
			}
		}
	}
	rec(0, map[int]int{}, 0)
	// documents of the other checks; those that come without a page URL get one
	crossEmit("C06", tier, "xurls", 1, func(c *eng.Case) {
		if c.URL == "" {
			c.URL = c06PageURLs[0]
		}
		emit(c)
	})
}

var rxMarker = regexp.MustCompile(`u\d+z`)

// c06Expected is the statement's rule.
func c06Expected(orig string, base *nurl.URL) (want string, passThrough bool) {
	if orig == "" || strings.HasPrefix(orig, "#") || strings.HasPrefix(orig, "data:") || strings.HasPrefix(orig, "javascript:") {
		return orig, true
	}
	ref, err := nurl.Parse(orig)
	if err != nil {
		return orig, true
	}
	if ref.Scheme != "" && ref.Host != "" {
		return orig, true
	}
	return base.ResolveReference(ref).String(), false
}

func refClass(orig string) string {
	switch {
	case orig == "":
		return "empty"
	case strings.HasPrefix(orig, "#"):
		return "fragment"
	case strings.HasPrefix(orig, "data:"):
		return "data"
	case strings.HasPrefix(orig, "javascript:"):
		return "javascript"
	case strings.HasPrefix(orig, "//"):
		return "scheme-rel"
	case strings.HasPrefix(orig, "/"):
		return "root-rel"
	case strings.HasPrefix(orig, "?"):
		return "query-only"
	case strings.HasPrefix(orig, "../"):
		return "dotdot"
	case strings.HasPrefix(orig, "./"):
		return "dot"
	case strings.HasPrefix(orig, "%"):
		return "unparseable"
	case strings.Contains(orig, "://"):
		return "absolute"
	}
	return "path-rel"
}

type urlUse struct {
	val  string
	attr string
	node *html.Node
}

// urlUses lists URL-valued attribute uses (srcset split into candidates).
func urlUses(root *html.Node, input bool) []urlUse {
	var out []urlUse
	ora.Walk(root, func(n *html.Node) bool {
		if n.Type != html.ElementNode {
			return true
		}
		if !input && ora.IsPlaceholder(n) {
			return false
		}
		if input && n.Data == "noscript" && n.FirstChild != nil && n.FirstChild.Type == html.TextNode {
			// with scripting enabled the parser keeps the content of <noscript> as text; the library
			// reads images out of it, so its URLs belong to the source as well
			if frag, err := html.ParseFragment(strings.NewReader(ora.AllText(n)), &html.Node{Type: html.ElementNode, Data: "div", DataAtom: atom.Div}); err == nil {
				for _, f := range frag {
					out = append(out, urlUses(f, true)...)
				}
			}
		}
		for _, a := range n.Attr {
			switch a.Key {
			case "href", "src", "poster", "data-src":
				out = append(out, urlUse{a.Val, a.Key, n})
			case "srcset", "data-srcset":
				for _, cand := range ora.SrcsetCandidates(a.Val) {
					out = append(out, urlUse{cand, a.Key, n})
				}
			}
		}
		return true
	})
	return out
}

func c06Check(c *eng.Case) *eng.Outcome {
	o := &eng.Outcome{}
	a := analyse(c, o)
	if a == nil {
		return o
	}
	base, err := nurl.Parse(c.URL)
	if err != nil || c.URL == "" {
		o.Skipped = "no page URL"
		return o
	}
	orig := map[string]string{}
	ambiguous := map[string]bool{}
	for _, u := range urlUses(a.Doc, true) {
		if m := rxMarker.FindString(u.val); m != "" {
			if prev, dup := orig[m]; !dup {
				orig[m] = u.val
			} else if prev != u.val {
				ambiguous[m] = true // atoms of other checks reuse one marker for two URLs (u2z.jpg, u2z-lazy.jpg)
			}
		}
	}
	if c.Kind == "xurls" {
		for m := range ambiguous {
			delete(orig, m) // such URLs are judged by the membership rule only
		}
	}
	relSeen := 0
	judge := func(got, where string) {
		m := rxMarker.FindString(got)
		if m == "" {
			return
		}
		src, ok := orig[m]
		if !ok {
			return
		}
		want, pass := c06Expected(src, base)
		if !pass {
			relSeen++
		}
		if got != want {
			o.V(fmt.Sprintf("url:%s:%s", where, refClass(src)), "%s: got %q, want %q (original %q, page URL %s); doc: %s", where, got, want, src, c.URL, c.Get("doc"))
			return
		}
		if !pass {
			if pu, err := nurl.Parse(got); err != nil || pu.Scheme == "" || pu.Host == "" {
				o.V(fmt.Sprintf("not-absolute:%s:%s", where, refClass(src)), "%s: %q is not absolute (original %q); doc: %s", where, got, src, c.Get("doc"))
			}
		}
	}
	if c.Kind == "xurls" {
		// documents without markers: every output URL must be what the rule gives for some URL
		// of the source
		wants := map[string]string{}
		for _, u := range urlUses(a.Doc, true) {
			w, pass := c06Expected(u.val, base)
			if _, dup := wants[w]; !dup {
				wants[w] = u.val
			}
			if !pass {
				relSeen++
			}
		}
		member := func(got, where string) {
			if _, ok := wants[got]; !ok {
				o.V("url-not-from-source:"+where, "%s: %q is not the resolution of any URL attribute of the source against %s; doc: %s", where, got, c.URL, c.Get("doc"))
			}
		}
		for _, u := range urlUses(a.Res.Node, false) {
			// the element kinds of the statement: a[href], img/source/track/video[src], srcset, video[poster]
			switch u.attr + "@" + u.node.Data {
			case "href@a", "src@img", "src@source", "src@track", "src@video", "srcset@img", "srcset@source", "poster@video":
				member(u.val, u.attr+"@"+u.node.Data)
			}
		}
		for _, u := range a.Res.ContentImages {
			member(u, "ContentImages")
		}
	}
	for _, u := range urlUses(a.Res.Node, false) {
		judge(u.val, u.attr+"@"+u.node.Data+"/"+c05Context(u.node))
	}
	for _, u := range a.Res.ContentImages {
		judge(u, "ContentImages")
	}
	o.Nontrivial = relSeen >= 1
	o.Class = fmt.Sprintf("relative-refs-in-output=%d viol=%d", min(relSeen, 6), min(len(o.Viol), 2))
	return o
}

func init() {
	eng.Register(&eng.Prop{
		ID:        "C06",
		DesignRef: "§5 C06",
		Rule: "host document with 23 URL-carrying positions (anchors whose text is a symbol without word characters, anchors wrapping a single inline element, block-styled anchors that become the root of their text block, a video with only a poster, a[href] in paragraph/list item/caption/table cell; img src, two srcset candidates, lazy data-src, picture source srcset + img, figure img, video src/poster, video source/track src, img in table), each defaulting to an absolute URL with a unique marker; " +
			"every assignment of <= 2 (quick) / <= 3 (thorough) positions to one of 17 non-default reference forms (relative references that embed another absolute URL, paths containing commas, path-relative, ./, ../, root-relative, scheme-relative, query-only, fragment, data:, javascript:, https absolute, unparseable, relative with query, empty) x 4 page URLs (triples under the first one)." + crossRule + " (there, without markers: every URL of the output must be what the rule gives for some URL attribute of the source) " +
			"Oracle: each URL attribute/srcset candidate of result.Node outside embed placeholders and each ContentImages entry, traced to its original by marker, equals the statement's rule (pass-through or RFC 3986 resolution against the page URL) and is absolute when resolved. Non-trivial = >= 1 relative reference reached the output.",
		Enumerate: c06Enumerate,
		Check:     c06Check,
		Prepare:   func(tier string) { CrossCorpus(tier) },
		Bounds: func(tier string) map[string]any {
			k := 2
			if tier == "thorough" {
				k = 3
			}
			return map[string]any{"decorated_variants": decorBound(tier), "positions": len(c06Positions), "forms": len(c06Forms), "max_non_default": k, "page_urls": len(c06PageURLs), "cross": crossBounds(tier)}
		},
	})
}
