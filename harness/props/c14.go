package props

import (
	"fmt"
	"reflect"
	"sort"
	"strings"

	"github.com/markusmobius/go-domdistiller/data"
	"verif/harness/eng"
	"verif/harness/ora"
)

// C14 — metadata follows the documented precedence and honours opt-out.

// A toggle switches one feature of the base document (which carries a qualified OpenGraph
// block of type article, a schema.org Article item with a headline, and IE tags with a title).
var c14Toggles = []string{
	// OpenGraph
	"og-no-title", "og-no-type", "og-no-url", "og-no-image", "og-type-profile", "og-type-website",
	"og-description", "og-site_name", "og-section", "og-published", "og-author", "og-first", "og-last", "og-image2", "og-modified-early",
	// schema.org
	"sc-no-item", "sc-no-headline", "sc-name", "sc-url", "sc-description", "sc-image", "sc-publisher", "sc-publisher-org",
	"sc-author", "sc-author-person", "sc-rel-author", "sc-date", "sc-section", "sc-year", "sc-holder", "sc-imageobject", "sc-second-item",
	// IE reading view
	"ie-no-title", "ie-copyright", "ie-byline", "ie-dateline", "ie-displaydate", "ie-publisher", "ie-figure", "ie-metas-in-body", "sc-rel-author-empty-first",
	// OpenGraph namespace declarations under non-default names
	"og-prefix-attr-html", "og-prefix-attr-head", "og-xmlns",
	// schema.org values given as text in elements whose value normally lives in an attribute
	"sc-author-a-text", "sc-publisher-data-text",
}

var c14Orders = [][3]string{{"og", "sc", "ie"}, {"og", "ie", "sc"}, {"sc", "og", "ie"}, {"sc", "ie", "og"}, {"ie", "og", "sc"}, {"ie", "sc", "og"}}

type c14Cfg struct {
	on     map[string]bool
	order  int
	optout string // "", "true", "false"
	only   string // "", "og", "sc", "ie": keep just this source's block
}

// c14Doc renders head and body blocks of the three sources in the configured order.
func c14Doc(cf *c14Cfg) string {
	on := func(t string) bool { return cf.on[t] }
	meta := func(attr, name, content string) string {
		return "<meta " + attr + "=\"" + name + "\" content=\"" + content + "\">"
	}
	head := map[string]string{}
	body := map[string]string{}
	// --- OpenGraph
	// namespace prefixes: declared under other names by a prefix attribute (on html or head) or by
	// legacy xmlns attributes; the properties then use those names
	pOG, pArt, pProf := "og", "article", "profile"
	htmlOpen, headOpen := "<html>", "<head>"
	const nsDecl = "ogx: http://ogp.me/ns# artx: http://ogp.me/ns/article# profx: http://ogp.me/ns/profile#"
	switch {
	case on("og-prefix-attr-html"):
		pOG, pArt, pProf = "ogx", "artx", "profx"
		htmlOpen = "<html lang=\"en\" prefix=\"" + nsDecl + "\">"
	case on("og-prefix-attr-head"):
		pOG, pArt, pProf = "ogx", "artx", "profx"
		headOpen = "<head prefix=\"" + nsDecl + "\">"
	case on("og-xmlns"):
		pOG, pArt, pProf = "ogx", "artx", "profx"
		htmlOpen = "<html xmlns:ogx=\"http://ogp.me/ns#\" lang=\"en\" xmlns:artx=\"http://ogp.me/ns/article#\" xmlns:profx=\"http://ogp.me/ns/profile#\">"
	}
	{
		var sb strings.Builder
		typ := "article"
		if on("og-type-profile") {
			typ = "profile"
		} else if on("og-type-website") {
			typ = "website"
		}
		if on("og-modified-early") {
			// an article property that precedes og:type (it is dropped: the type is not known yet)
			sb.WriteString(meta("property", pArt+":modified_time", "OGmodifiedEarly"))
		}
		if !on("og-no-type") {
			sb.WriteString(meta("property", pOG+":type", typ))
		}
		if !on("og-no-title") {
			sb.WriteString(meta("property", pOG+":title", "OGtitle"))
		}
		if !on("og-no-url") {
			sb.WriteString(meta("property", pOG+":url", "http://og.example/OGurl"))
		}
		if !on("og-no-image") {
			sb.WriteString(meta("property", pOG+":image", "http://og.example/OGimage.jpg"))
		}
		if on("og-image2") {
			sb.WriteString(meta("property", pOG+":image", "http://og.example/OGimage2.jpg") + meta("property", pOG+":image:width", "640"))
		}
		if on("og-description") {
			sb.WriteString(meta("property", pOG+":description", "OGdescription"))
		}
		if on("og-site_name") {
			sb.WriteString(meta("property", pOG+":site_name", "OGsite"))
		}
		if on("og-section") {
			sb.WriteString(meta("property", pArt+":section", "OGsection"))
		}
		if on("og-published") {
			sb.WriteString(meta("property", pArt+":published_time", "OGpublished"))
		}
		if on("og-author") {
			sb.WriteString(meta("property", pArt+":author", "OGauthor"))
		}
		if on("og-first") {
			sb.WriteString(meta("property", pProf+":first_name", "OGfirst"))
		}
		if on("og-last") {
			sb.WriteString(meta("property", pProf+":last_name", "OGlast"))
		}
		head["og"] = sb.String()
	}
	// --- schema.org
	{
		var sb strings.Builder
		item := func(suffix string) {
			sb.WriteString("<div itemscope itemtype=\"http://schema.org/Article\">")
			if !on("sc-no-headline") {
				sb.WriteString("<span itemprop=\"headline\">SCheadline" + suffix + "</span>")
			}
			if on("sc-name") {
				sb.WriteString("<span itemprop=\"name\">SCname" + suffix + "</span>")
			}
			if on("sc-url") {
				sb.WriteString("<a itemprop=\"url\" href=\"http://sc.example/SCurl" + suffix + "\">x</a>")
			}
			if on("sc-description") {
				sb.WriteString("<span itemprop=\"description\">SCdescription" + suffix + "</span>")
			}
			if on("sc-image") {
				sb.WriteString("<img itemprop=\"image\" src=\"http://sc.example/SCimage" + suffix + ".jpg\">")
			}
			if on("sc-publisher") {
				sb.WriteString("<span itemprop=\"publisher\">SCpublisher" + suffix + "</span>")
			}
			if on("sc-publisher-org") {
				sb.WriteString("<div itemprop=\"publisher\" itemscope itemtype=\"http://schema.org/Organization\"><span itemprop=\"name\">SCorgname" + suffix + "</span></div>")
			}
			if on("sc-author") {
				sb.WriteString("<span itemprop=\"author\">SCauthor" + suffix + "</span>")
			}
			if on("sc-author-a-text") {
				// an element whose value normally lives in an attribute (href), given as text only
				sb.WriteString("<a itemprop=\"author\">SCauthorA" + suffix + "</a>")
			}
			if on("sc-publisher-data-text") {
				sb.WriteString("<data itemprop=\"publisher\">SCpublisherD" + suffix + "</data>")
			}
			if on("sc-author-person") {
				sb.WriteString("<div itemprop=\"author\" itemscope itemtype=\"http://schema.org/Person\"><span itemprop=\"name\">SCpersonname" + suffix + "</span></div>")
			}
			if on("sc-date") {
				sb.WriteString("<time itemprop=\"datePublished\" datetime=\"SCdate" + suffix + "\">d</time>")
			}
			if on("sc-section") {
				sb.WriteString("<span itemprop=\"articleSection\">SCsection" + suffix + "</span>")
			}
			if on("sc-year") {
				sb.WriteString("<span itemprop=\"copyrightYear\">SCyear" + suffix + "</span>")
			}
			if on("sc-holder") {
				sb.WriteString("<span itemprop=\"copyrightHolder\">SCholder" + suffix + "</span>")
			}
			sb.WriteString("</div>")
		}
		if !on("sc-no-item") {
			item("")
			if on("sc-second-item") {
				item("2")
			}
		}
		if on("sc-rel-author") {
			if on("sc-rel-author-empty-first") {
				sb.WriteString("<a rel=\"author\" href=\"/a\"><img src=\"http://sc.example/avatar.png\"></a>")
			}
			sb.WriteString("<a rel=\"author\" href=\"/a\">SCrelauthor</a>")
		}
		if on("sc-imageobject") {
			sb.WriteString("<div itemscope itemtype=\"http://schema.org/ImageObject\"><img itemprop=\"contentUrl\" src=\"http://sc.example/SCimgobj.jpg\"><span itemprop=\"caption\">SCcaption</span></div>")
		}
		body["sc"] = sb.String()
	}
	// --- IE reading view
	{
		var hb, bb strings.Builder
		if !on("ie-no-title") {
			hb.WriteString(meta("name", "title", "IEtitle"))
		}
		if on("ie-copyright") {
			hb.WriteString(meta("name", "copyright", "IEcopyright"))
		}
		if on("ie-displaydate") {
			hb.WriteString(meta("name", "displaydate", "IEdisplaydate"))
		}
		if on("ie-byline") {
			bb.WriteString("<div><span class=\"byline-name\">IEbyline</span></div>")
		}
		if on("ie-dateline") {
			bb.WriteString("<div class=\"dateline\">IEdateline</div>")
		}
		if on("ie-publisher") {
			bb.WriteString("<div publisher=\"IEpublisher\">x</div>")
		}
		if on("ie-figure") {
			bb.WriteString("<figure><img src=\"http://ie.example/IEimage.jpg\" width=\"600\" height=\"400\"><figcaption>IEcaption</figcaption></figure>")
		}
		head["ie"] = hb.String()
		body["ie"] = bb.String()
	}
	var hs, bs strings.Builder
	for _, src := range c14Orders[cf.order] {
		if cf.only != "" && cf.only != src {
			continue
		}
		hs.WriteString(head[src])
		bs.WriteString(body[src])
	}
	opt := ""
	if cf.optout != "" {
		opt = meta("name", "IE_RM_OFF", cf.optout)
	}
	t := &ora.Tok{}
	if on("ie-metas-in-body") {
		// the IE tags (and the opt-out tag) end up in <body>, as when an author puts a tracking
		// image into <head> and the parser closes the head early
		hsNoIE := strings.Replace(hs.String(), head["ie"], "", 1)
		ieBlock := ""
		if cf.only == "" || cf.only == "ie" {
			ieBlock = head["ie"]
		}
		return htmlOpen + headOpen + "<title>" + ora.DefaultTitle + "</title>" + hsNoIE + "</head><body>" + ieBlock + opt + "<div class=\"main\"><p>" + t.W(21) + "</p>" + bs.String() + "<p>" + t.W(22) + "</p><p>" + t.W(23) + "</p></div></body></html>"
	}
	return htmlOpen + headOpen + "<title>" + ora.DefaultTitle + "</title>" + hs.String() + opt + "</head><body><div class=\"main\"><p>" + t.W(21) + "</p>" + bs.String() + "<p>" + t.W(22) + "</p><p>" + t.W(23) + "</p></div></body></html>"
}

func c14Enumerate(tier string, emit func(*eng.Case)) {
	maxT, maxTFull := 3, 2
	if tier == "thorough" {
		maxT, maxTFull = 4, 3
	}
	n := len(c14Toggles)
	var rec func(start int, cur []int)
	rec = func(start int, cur []int) {
		var names []string
		for _, i := range cur {
			names = append(names, c14Toggles[i])
		}
		ts := strings.Join(names, ",")
		for oi := range c14Orders {
			for _, opt := range []string{"", "true", "false"} {
				full := len(cur) <= maxTFull
				if !full && !((oi == 0 || oi == 5) && opt == "") {
					continue
				}
				emit(&eng.Case{Kind: "markup", P: map[string]string{"toggles": ts, "order": fmt.Sprint(oi), "optout": opt,
					"doc": fmt.Sprintf("toggles[%s] order=%v optout=%q", ts, c14Orders[oi], opt)}})
			}
		}
		if len(cur) == maxT {
			return
		}
		for i := start; i < n; i++ {
			rec(i+1, append(cur[:len(cur):len(cur)], i))
		}
	}
	rec(0, nil)
}

func c14Run(cf *c14Cfg, o *eng.Outcome) (*data.MarkupInfo, bool) {
	c := &eng.Case{HTML: c14Doc(cf)}
	_, res, err, pi := ora.Run(c)
	o.Execs++
	if pi != nil {
		o.Skipped = pi.Sig()
		return nil, false
	}
	if err != nil || res == nil {
		o.Skipped = "error"
		return nil, false
	}
	return &res.MarkupInfo, true
}

func c14Cfg0(c *eng.Case) *c14Cfg {
	cf := &c14Cfg{on: map[string]bool{}, optout: c.Get("optout")}
	fmt.Sscan(c.Get("order"), &cf.order)
	if ts := c.Get("toggles"); ts != "" {
		for _, t := range strings.Split(ts, ",") {
			cf.on[t] = true
		}
	}
	return cf
}

func c14Render(c *eng.Case) string { return c14Doc(c14Cfg0(c)) }

func c14Check(c *eng.Case) *eng.Outcome {
	o := &eng.Outcome{}
	cf := c14Cfg0(c)
	c.HTML = c14Doc(cf)
	full, ok := c14Run(cf, o)
	if !ok {
		return o
	}
	if cf.optout == "true" {
		if !reflect.DeepEqual(*full, data.MarkupInfo{}) {
			o.V("optout-not-empty", "page opts out with IE_RM_OFF=true but MarkupInfo is %+v; %s", *full, c.Get("doc"))
		}
		o.Nontrivial = true
		o.Class = "optout"
		return o
	}
	only := map[string]*data.MarkupInfo{}
	for _, src := range []string{"og", "sc", "ie"} {
		c2 := *cf
		c2.only = src
		c2.optout = ""
		mi, ok := c14Run(&c2, o)
		if !ok {
			return o
		}
		only[src] = mi
	}
	// OpenGraph participates only with all four required properties
	ogQualified := !cf.on["og-no-title"] && !cf.on["og-no-type"] && !cf.on["og-no-url"] && (!cf.on["og-no-image"] || cf.on["og-image2"])
	if !ogQualified {
		if z := *only["og"]; !(z.Title == "" && z.Type == "" && z.URL == "" && z.Description == "" && z.Publisher == "" && z.Copyright == "" && z.Author == "" &&
			len(z.Images) == 0 && reflect.DeepEqual(normArt(z.Article), data.MarkupArticle{})) {
			o.V("og-unqualified-used", "OpenGraph lacks a required property but alone yields %+v; %s", *only["og"], c.Get("doc"))
		}
	}
	order := []string{"og", "sc", "ie"}
	str := func(mi *data.MarkupInfo, f string) string {
		switch f {
		case "Title":
			return mi.Title
		case "Type":
			return mi.Type
		case "URL":
			return mi.URL
		case "Description":
			return mi.Description
		case "Publisher":
			return mi.Publisher
		case "Copyright":
			return mi.Copyright
		case "Author":
			return mi.Author
		}
		return ""
	}
	conflicts := 0
	for _, f := range []string{"Title", "Type", "URL", "Description", "Publisher", "Copyright", "Author"} {
		want, from := "", "none"
		providers := 0
		vals := map[string]bool{}
		for _, src := range order {
			if v := str(only[src], f); v != "" {
				providers++
				vals[v] = true
				if want == "" {
					want, from = v, src
				}
			}
		}
		if providers >= 2 && len(vals) >= 2 {
			conflicts++
		}
		if got := str(full, f); got != want {
			o.V(fmt.Sprintf("precedence:%s:want-%s", f, from), "MarkupInfo.%s=%q, expected %q (from %s; alone: og=%q sc=%q ie=%q); %s", f, got, want, from, str(only["og"], f), str(only["sc"], f), str(only["ie"], f), c.Get("doc"))
		}
	}
	// direct reference for the scalar fields: every value names its source and field, and each
	// toggle says which source offers which field. A field is judged only when no source offers it
	// through two different toggles (which of the two wins inside one source is extraction, not precedence).
	{
		on := func(t string) bool { return cf.on[t] }
		type prov struct{ src, val string }
		offers := map[string][]prov{}
		add := func(f, src, val string, cond bool) {
			if cond {
				offers[f] = append(offers[f], prov{src, val})
			}
		}
		ogArticle := ogQualified && !on("og-type-profile") && !on("og-type-website")
		ogProfile := ogQualified && on("og-type-profile")
		add("Title", "og", "OGtitle", ogQualified)
		add("Type", "og", "Article", ogArticle)
		add("URL", "og", "http://og.example/OGurl", ogQualified)
		add("Description", "og", "OGdescription", ogQualified && on("og-description"))
		add("Publisher", "og", "OGsite", ogQualified && on("og-site_name"))
		add("Author", "og", "OGfirst OGlast", ogProfile && on("og-first") && on("og-last"))
		add("Author", "og", "OGfirst", ogProfile && on("og-first") && !on("og-last"))
		item := !on("sc-no-item")
		add("Title", "sc", "SCheadline", item && !on("sc-no-headline"))
		add("Title", "sc", "SCname", item && on("sc-no-headline") && on("sc-name"))
		add("Type", "sc", "Article", item)
		add("URL", "sc", "http://sc.example/SCurl", item && on("sc-url"))
		add("Description", "sc", "SCdescription", item && on("sc-description"))
		add("Publisher", "sc", "SCpublisher", item && on("sc-publisher"))
		add("Publisher", "sc", "SCorgname", item && on("sc-publisher-org"))
		add("Publisher", "sc", "SCholder", item && on("sc-holder") && !on("sc-publisher") && !on("sc-publisher-org"))
		add("Author", "sc", "SCauthor", item && on("sc-author"))
		add("Author", "sc", "SCpersonname", item && on("sc-author-person"))
		add("Author", "sc", "SCauthorA", item && on("sc-author-a-text"))
		add("Publisher", "sc", "SCpublisherD", item && on("sc-publisher-data-text"))
		add("Author", "sc", "SCrelauthor", on("sc-rel-author") && !(item && (on("sc-author") || on("sc-author-person"))))
		add("Title", "ie", "IEtitle", !on("ie-no-title"))
		add("Publisher", "ie", "IEpublisher", on("ie-publisher"))
		add("Copyright", "ie", "IEcopyright", on("ie-copyright"))
		add("Author", "ie", "IEbyline", on("ie-byline"))
		for _, f := range []string{"Title", "Type", "URL", "Description", "Publisher", "Author"} {
			perSrc := map[string][]string{}
			for _, pv := range offers[f] {
				perSrc[pv.src] = append(perSrc[pv.src], pv.val)
			}
			ambiguous := false
			for _, v := range perSrc {
				if len(v) > 1 {
					ambiguous = true
				}
			}
			if ambiguous || (f == "Copyright") {
				continue
			}
			want, from := "", "none"
			for _, src := range order {
				if v := perSrc[src]; len(v) == 1 {
					want, from = v[0], src
					break
				}
			}
			if got := str(full, f); got != want {
				o.V(fmt.Sprintf("field:%s:want-%s", f, from), "MarkupInfo.%s=%q, but the page offers %q through %s (highest-precedence source offering it); %s", f, got, want, from, c.Get("doc"))
			}
		}
		if on("ie-copyright") && !(item && (on("sc-year") || on("sc-holder"))) {
			if full.Copyright != "IEcopyright" {
				o.V("field:Copyright:want-ie", "MarkupInfo.Copyright=%q, but only IE offers a copyright (IEcopyright); %s", full.Copyright, c.Get("doc"))
			}
		}
		// the OpenGraph article record: properties after og:type are part of it
		if ogArticle && (on("og-section") || on("og-published") || on("og-author")) {
			a := full.Article
			if on("og-section") && a.Section != "OGsection" || on("og-published") && a.PublishedTime != "OGpublished" || on("og-author") && (len(a.Authors) != 1 || a.Authors[0] != "OGauthor") {
				o.V("article:og-record-incomplete", "OpenGraph (type article) offers section/published/author after og:type but MarkupInfo.Article=%+v; %s", a, c.Get("doc"))
			}
		}
	}
	// images: wholesale from the first source with a non-empty list
	{
		var want []data.MarkupImage
		from := "none"
		for _, src := range order {
			if len(only[src].Images) > 0 {
				want, from = only[src].Images, src
				break
			}
		}
		if !reflect.DeepEqual(normImgs(full.Images), normImgs(want)) {
			o.V("precedence:Images:want-"+from, "MarkupInfo.Images=%+v, expected %+v (from %s); %s", full.Images, want, from, c.Get("doc"))
		}
	}
	// article: wholesale from the first source that has a record
	{
		has := map[string]bool{
			"og": ogQualified && !cf.on["og-type-profile"] && !cf.on["og-type-website"] && (cf.on["og-section"] || cf.on["og-published"] || cf.on["og-author"]),
			"sc": !cf.on["sc-no-item"],
			"ie": true,
		}
		from := ""
		for _, src := range order {
			if has[src] {
				from = src
				break
			}
		}
		want := only[from].Article
		if !reflect.DeepEqual(normArt(full.Article), normArt(want)) {
			o.V("article:want-"+from, "MarkupInfo.Article=%+v, expected the record of %s: %+v; %s", full.Article, from, want, c.Get("doc"))
		}
		nHas := 0
		for _, v := range has {
			if v {
				nHas++
			}
		}
		if nHas >= 2 {
			conflicts++
		}
	}
	o.Nontrivial = conflicts >= 1 || !ogQualified
	keys := []string{}
	for k := range cf.on {
		keys = append(keys, k[:2])
	}
	sort.Strings(keys)
	o.Class = fmt.Sprintf("og-qualified=%v conflicts=%d", ogQualified, min(conflicts, 4))
	return o
}

func normImgs(im []data.MarkupImage) []data.MarkupImage {
	if len(im) == 0 {
		return nil
	}
	return im
}

func normArt(a data.MarkupArticle) data.MarkupArticle {
	if len(a.Authors) == 0 {
		a.Authors = nil
	}
	return a
}

func init() {
	eng.Register(&eng.Prop{
		ID:        "C14",
		DesignRef: "§5 C14",
		Rule: "base page with all three sources (qualified OpenGraph article, schema.org Article item with headline, IE tags with title); every set of <= 3 (quick) / <= 4 (thorough) of 46 feature toggles (schema.org values given as the text of an <a> without href or a <data> without value; OpenGraph namespaces declared under other names by a prefix attribute on html or on head or by legacy xmlns attributes; drop a required OG property, OG type profile/website, OG optional/article/profile properties, second image, an article property placed before og:type; schema.org item absent, name/url/description/image/publisher string|Organization/author string|Person/rel=author/date/section/copyright year+holder/ImageObject/second item; IE title absent, copyright, byline, dateline, displaydate, publisher attribute, captioned figure, the IE and opt-out meta tags placed in <body>; an empty rel=author element before the real one), " +
			"with all 6 block orders x opt-out {absent,true,false} for sets of <= 2 (quick) / <= 3 (thorough) toggles and 2 orders otherwise; every value is a token naming source and field. Oracle: opt-out => zero MarkupInfo; otherwise each scalar field = first non-empty of the values the sources yield alone (4 executions per case: full, OG only, schema.org only, IE only), Images wholesale from the first non-empty source, Article wholesale from the first source that has a record, an unqualified OpenGraph block yields nothing, and - directly from the tokens - each scalar field holds the token of the highest-precedence source whose markup offers it (judged when no source offers the field in two ways). " +
			"Non-trivial = two sources supply different values for a field (or two have an article record), or OpenGraph is disqualified.",
		Enumerate: c14Enumerate,
		Check:     c14Check,
		Bounds: func(tier string) map[string]any {
			if tier == "thorough" {
				return map[string]any{"toggles": len(c14Toggles), "max_toggles": 4, "max_toggles_all_orders_optouts": 3}
			}
			return map[string]any{"toggles": len(c14Toggles), "max_toggles": 3, "max_toggles_all_orders_optouts": 2}
		},
		Assumptions: []string{"og:type precedes the article:/profile: properties (the conventional order); extraction inside one source is not judged, only precedence and qualification"},
	})
}
