package props

import (
	"bytes"
	"encoding/json"
	"fmt"
	"net/http"
	nurl "net/url"
	"os"
	"os/exec"
	"path/filepath"
	"strings"
	"time"
	"unicode/utf8"

	"github.com/go-shiori/dom"
	distiller "github.com/markusmobius/go-domdistiller"
	"github.com/markusmobius/go-domdistiller/verifrt"
	"golang.org/x/net/html"
	"verif/harness/eng"
	"verif/harness/ora"
)

// C11 — the result is a deterministic function of document and options.

func fullKey(r *distiller.Result) string {
	return fmt.Sprintf("U=%q\nP=%q|%q\n%s", r.URL, r.PaginationInfo.PrevPage, r.PaginationInfo.NextPage, contentKey(r))
}

// diffField names the first result field in which two canonical keys differ.
func diffField(a, b string) string {
	la, lb := strings.SplitN(a, "\n", 9), strings.SplitN(b, "\n", 9)
	names := map[byte]string{'U': "URL", 'P': "PaginationInfo", 'T': "Title", 'W': "WordCount", 'I': "ContentImages", 'M': "MarkupInfo", 'X': "Text", 'H': "HTML"}
	for i := 0; i < len(la) && i < len(lb); i++ {
		if la[i] != lb[i] {
			if n, ok := names[la[i][0]]; ok {
				return n
			}
			return "field" + fmt.Sprint(i)
		}
	}
	return "?"
}

// ---- corpus ----------------------------------------------------------------------------------

var c11Patterns = []func(i int) string{
	func(i int) string { return fmt.Sprintf("http://example.com/story?page=%d", i) },
	func(i int) string { return fmt.Sprintf("http://example.com/story?p=%d", i) },
	func(i int) string { return fmt.Sprintf("http://example.com/story/%d", i) },
	func(i int) string { return fmt.Sprintf("http://example.com/story?page=%d&sort=%d", i, i) },
}

func c11PagerDoc(assign []int, k int) string {
	t := &ora.Tok{}
	var sb strings.Builder
	sb.WriteString("<html><head><title>" + ora.DefaultTitle + "</title></head><body><div class=\"main\"><p>" + t.W(22) + "</p><p>" + t.W(25) + "</p></div><div class=\"pagination\">")
	si := 0
	for i := 1; i <= len(assign)+1; i++ {
		if i == k {
			sb.WriteString(fmt.Sprintf(" %d ", i))
			continue
		}
		sb.WriteString(fmt.Sprintf(" <a href=\"%s\">%d</a> ", strings.ReplaceAll(c11Patterns[assign[si]](i), "&", "&amp;"), i))
		si++
	}
	sb.WriteString("</div></body></html>")
	return sb.String()
}

var c11Atoms = append(append([]ora.Atom{}, c13Atoms...),
	ora.Atom{Name: "YTq", Gen: func(t *ora.Tok) string {
		return "<iframe src=\"http://www.youtube.com/embed/" + t.U() + "?start=10&amp;end=20&amp;rel=0&amp;autoplay=1\"></iframe>"
	}},
	ora.Atom{Name: "VMq", Gen: func(t *ora.Tok) string {
		return "<iframe src=\"http://player.vimeo.com/video/12345?color=ff&amp;title=0&amp;byline=0\"></iframe>"
	}},
	ora.Atom{Name: "SCH2", Gen: func(t *ora.Tok) string {
		return "<div itemscope itemtype=\"http://schema.org/Article\"><span itemprop=\"headline\">" + t.W(3) + "</span><img itemprop=\"image\" src=\"http://example.com/img/ph.gif\" data-src=\"http://example.com/img/" + t.U() + ".jpg\" width=\"400\" height=\"300\"></div>"
	}},
	ora.Atom{Name: "TBLcg", Gen: func(t *ora.Tok) string {
		return "<table><colgroup><col><col></colgroup><tr><th></th><th>" + t.W(1) + "</th></tr><tr><td>" + t.W(1) + "</td><td>" + t.W(1) + "</td></tr></table>"
	}},
	ora.Atom{Name: "TBLcol", Gen: func(t *ora.Tok) string {
		return "<table><col><tr><th> </th><th>" + t.W(1) + "</th><th>" + t.W(1) + "</th></tr><tr><td>" + t.W(1) + "</td><td>" + t.W(1) + "</td><td>" + t.W(1) + "</td></tr></table>"
	}},
	ora.Atom{Name: "EMBp", Gen: func(t *ora.Tok) string {
		return "<p>" + t.W(9) + " <b>" + t.W(2) + "</b>: <iframe src=\"http://www.youtube.com/embed/" + t.U() + "\"></iframe> " + t.W(11) + " <i>" + t.W(1) + "</i></p><p>" + t.W(8) + " <blockquote class=\"twitter-tweet\"><p>" + t.W(5) + "</p><a href=\"https://twitter.com/x/status/31337\">" + t.W(1) + "</a></blockquote> " + t.W(9) + "</p>"
	}},
	ora.Atom{Name: "STY", Gen: func(t *ora.Tok) string {
		return "<div style=\"color: #c00\"><p>" + t.W(21) + "</p></div><p>" + t.W(9) + " <span style=\"color: #c00\">" + t.W(2) + "</span> " + t.W(3) + " <a style=\"color: #c00\" href=\"/x\">" + t.W(2) + "</a></p><p style=\"font-weight:bold\" hidden>" + t.W(4) + "</p><p style=\"font-weight:bold\">" + t.W(20) + "</p>"
	}},
	ora.Atom{Name: "LBL2", Gen: func(t *ora.Tok) string {
		return "<div class=\"comment\"><h2>" + t.W(3) + "</h2><ul><li><h3>" + t.W(2) + "</h3>" + t.W(12) + "</li><li>" + t.W(20) + "</li></ul></div>"
	}},
)

var c11Alphabet = []string{"Pc", "Pb", "H", "UL3", "TBLd", "IMG", "FIG", "YT", "YTq", "VMq", "TW", "PAGER", "PAGER2", "PAGER3", "LBL", "LBL2", "OG", "INL", "FALLB", "TBLcg", "TBLcol", "STY"}

func c11Enumerate(tier string, emit func(*eng.Case)) {
	thorough := tier == "thorough"
	// (1a) pagers mixing URL patterns
	np := 3
	ks := []int{2, 4}
	if thorough {
		np = 4
		ks = []int{1, 2, 3, 4, 5, 6}
	}
	alpha := make([]int, np)
	for i := range alpha {
		alpha[i] = i
	}
	seqEnum(alpha, 5, func(seq []int) {
		if len(seq) != 5 {
			return
		}
		for _, k := range ks {
			for algo := 0; algo < 2; algo++ {
				url := c11Patterns[seq[0]](k)
				emit(&eng.Case{Kind: "maporder", HTML: c11PagerDoc(seq, k), URL: url, Algo: algo, P: map[string]string{"doc": fmt.Sprintf("pager patterns %v k=%d", seq, k)}})
			}
		}
	})
	// (1b) docspace corpus with every log flag (labels and debug maps are walked when logging)
	atoms := c11Atoms
	al := ora.AtomIndex(atoms, c11Alphabet...)
	maxE := 1
	if thorough {
		maxE = 2
	}
	ora.EnumDocs(ora.StdSkeletons(atoms), al, maxE, func(d *ora.DocModel, edits int) {
		for _, fl := range []uint{0, 30} {
			for algo := 0; algo < 2; algo++ {
				c := caseFromModel("maporder", d, atoms, c13URL)
				c.Flags = fl
				c.Algo = algo
				emit(c)
			}
		}
	})
	// (1c) warm vs fresh: every corpus document distilled in this long-lived worker (after whatever
	// came before) must equal the same document distilled in a fresh process
	seqEnum(alpha, 5, func(seq []int) {
		if len(seq) != 5 {
			return
		}
		for _, k := range ks {
			emit(&eng.Case{Kind: "warm", HTML: c11PagerDoc(seq, k), URL: c11Patterns[seq[0]](k), Algo: 1, P: map[string]string{"doc": fmt.Sprintf("warm-vs-fresh pager patterns %v k=%d", seq, k)}})
		}
	})
	ora.EnumDocs(ora.StdSkeletons(atoms), al, maxE, func(d *ora.DocModel, edits int) {
		for algo := 0; algo < 2; algo++ {
			c := caseFromModel("warm", d, atoms, c13URL)
			c.Algo = algo
			c.P["doc"] = "warm-vs-fresh " + c.P["doc"]
			emit(c)
		}
	})
	// (1d) warm vs fresh over the other properties' spaces: an evenly spaced subset (every k-th case of
	// the quick enumeration, a fixed stride per property) of the documents that the other checks
	// explore is distilled warm and fresh as well, so that state surviving between calls shows on
	// the input shapes those checks care about (URL forms, pagers, frames, hidden content, ...)
	every := 3
	if thorough {
		every = 2
	}
	crossEmit("C11", tier, "warm", every, func(c *eng.Case) {
		c.P["doc"] = "warm-vs-fresh " + c.P["doc"]
		emit(c)
	})
	// (2) histories: every sequence of <= 3 calls from the menu
	n := len(c11Menu())
	hist := make([]int, n)
	for i := range hist {
		hist[i] = i
	}
	seqEnum(hist, 3, func(seq []int) {
		if len(seq) == 0 {
			return
		}
		if len(seq) == 3 && tier != "thorough" {
			for _, x := range seq {
				if x >= 9 {
					return // quick: triples over the first nine entries, pairs over all
				}
			}
		}
		var s []string
		for _, x := range seq {
			s = append(s, fmt.Sprint(x))
		}
		emit(&eng.Case{Kind: "history", P: map[string]string{"menu": "main", "seq": strings.Join(s, ","), "doc": "history " + strings.Join(s, ",")}})
	})
	// (2c) ordered pairs and triples over the metadata menu
	nm := len(c11MenuNamed("meta"))
	for i := 0; i < nm; i++ {
		for j := 0; j < nm; j++ {
			emit(&eng.Case{Kind: "history", P: map[string]string{"menu": "meta", "seq": fmt.Sprintf("%d,%d", i, j), "doc": fmt.Sprintf("meta-menu history %d,%d", i, j)}})
			if tier == "thorough" {
				for k := 0; k < nm; k++ {
					emit(&eng.Case{Kind: "history", P: map[string]string{"menu": "meta", "seq": fmt.Sprintf("%d,%d,%d", i, j, k), "doc": fmt.Sprintf("meta-menu history %d,%d,%d", i, j, k)}})
				}
			}
		}
	}
	// (2e) ordered pairs and triples over the script menu (editions of one article in different
	// scripts that share <title> and markup title: the word counter differs, the titles do not)
	ns := len(c11MenuNamed("script"))
	for i := 0; i < ns; i++ {
		for j := 0; j < ns; j++ {
			emit(&eng.Case{Kind: "history", P: map[string]string{"menu": "script", "seq": fmt.Sprintf("%d,%d", i, j), "doc": fmt.Sprintf("script-menu history %d,%d", i, j)}})
			for k := 0; k < ns; k++ {
				emit(&eng.Case{Kind: "history", P: map[string]string{"menu": "script", "seq": fmt.Sprintf("%d,%d,%d", i, j, k), "doc": fmt.Sprintf("script-menu history %d,%d,%d", i, j, k)}})
			}
		}
	}
	// (2d) one URL object reused and changed in place by the caller between two calls
	for i := 0; i < len(c11InplaceURLs); i++ {
		for j := 0; j < len(c11InplaceURLs); j++ {
			if i == j {
				continue
			}
			for algo := 0; algo < 2; algo++ {
				emit(&eng.Case{Kind: "inplace", Algo: algo, P: map[string]string{"from": fmt.Sprint(i), "to": fmt.Sprint(j), "doc": fmt.Sprintf("URL object changed in place from %s to %s between two calls", c11InplaceURLs[i], c11InplaceURLs[j])}})
			}
		}
	}
	// (2b) ordered pairs over the URL-resolution menu
	nu := len(c11MenuNamed("url"))
	for i := 0; i < nu; i++ {
		for j := 0; j < nu; j++ {
			emit(&eng.Case{Kind: "history", P: map[string]string{"menu": "url", "seq": fmt.Sprintf("%d,%d", i, j), "doc": fmt.Sprintf("url-menu history %d,%d", i, j)}})
		}
	}
	// (3) entry points agree
	lb := 2
	if thorough {
		lb = 3
	}
	all := make([]int, len(c01Bytes))
	for i := range all {
		all[i] = i
	}
	seqEnum(all, lb, func(seq []int) {
		var sb strings.Builder
		for _, s := range seq {
			sb.WriteString(c01Bytes[s])
		}
		emit(&eng.Case{Kind: "entry", HTML: sb.String(), URL: "http://example.com/a/2", P: map[string]string{"doc": fmt.Sprintf("bytes %q", sb.String())}})
	})
	ora.EnumDocs(ora.StdSkeletons(atoms), al, 1, func(d *ora.DocModel, edits int) {
		emit(caseFromModel("entry", d, atoms, c13URL))
	})
}

// ---- histories -------------------------------------------------------------------------------

type c11Call struct {
	html  string
	url   string
	algo  int
	flags uint
	entry string // apply, reader, file
}

func c11Menu() []c11Call { return c11MenuNamed("main") }

// c11MenuNamed returns a menu of calls. "main": varied documents, options and entry points
// (including a page that starts with media, nil options and ApplyForURL with nil options).
// "url": one document full of relative references distilled under page URLs that share hosts,
// directories and string prefixes - calls that would collide in any process-wide URL cache.
func c11MenuNamed(name string) []c11Call {
	atoms := c11Atoms
	s := ora.StdSkeletons(atoms)
	d1 := s[0].Render(atoms)
	if name == "url" {
		t := &ora.Tok{}
		doc := "<html><head><title>" + ora.DefaultTitle + "</title></head><body><div class=\"main\"><p>" + t.W(20) + " <a href=\"3\">" + t.W(1) + "</a> <a href=\"23\">" + t.W(1) + "</a> <a href=\"2/3\">" + t.W(1) + "</a> <a href=\"?page=3\">" + t.W(1) + "</a></p>" +
			"<img src=\"img/a.jpg\" srcset=\"img/a-2x.jpg 2x\" width=\"400\" height=\"300\"><p>" + t.W(22) + "</p><iframe src=\"/embed/abc123?rel=0\"></iframe><p>" + t.W(21) + "</p>" +
			"<video src=\"v/a.mp4\" poster=\"v/a.jpg\"></video><p>" + t.W(23) + "</p></div><div class=\"pagination\"><a href=\"1\">1</a> 2 <a href=\"3\">3</a> <a href=\"3\">Next</a> <a href=\"1\">Prev</a></div>" +
			"<p>" + t.W(20) + "</p><div class=\"pages\"><a href=\"?page=1\">1</a> 2 <a href=\"?page=3\">3</a> <a href=\"?page=4\">4</a> <a href=\"?page=5\">5</a></div></body></html>"
		// a second document whose only pager uses a query parameter (so that query patterns decide)
		t2 := &ora.Tok{}
		docQ := "<html><head><title>" + ora.DefaultTitle + "</title></head><body><div class=\"main\"><p>" + t2.W(21) + " <a href=\"?ref=x\">" + t2.W(1) + "</a></p><p>" + t2.W(22) + "</p><p>" + t2.W(23) + "</p></div>" +
			"<div class=\"pages\"><a href=\"?page=1\">1</a> 2 <a href=\"?page=3\">3</a> <a href=\"?page=4\">4</a> <a href=\"?page=5\">5</a></div></body></html>"
		var m []c11Call
		urls := []string{"http://example.com/articles/", "http://example.com/articles/2", "http://example.com/articles/2/", "http://example.com/book/chapter-1/page.html",
			"http://example.com/book/chapter-2/page.html", "http://www.youtube.com/watch/x", "http://evil.example/watch/x"}
		for _, u := range urls {
			m = append(m, c11Call{doc, u, 0, 0, "apply"}, c11Call{doc, u, 1, 0, "reader"})
		}
		for _, u := range urls {
			m = append(m, c11Call{docQ, u + "?page=2", 1, 0, "reader"})
		}
		return m
	}
	if name == "script" {
		head := "<head><meta charset=\"utf-8\"><title>Daily Post</title><meta name=\"title\" content=\"Daily Post Front Page - \uc11c\uc6b8 news \ubd80\uc0b0 today - Daily\"></head>"
		rep := func(n int, f string) string {
			var sb strings.Builder
			for i := 0; i < n; i++ {
				sb.WriteString(fmt.Sprintf(f, i))
			}
			return sb.String()
		}
		en := "<html>" + head + "<body><article><h1>English edition</h1><p>" + rep(30, "This is sentence number %d of the English edition of the story, and it is long enough. ") + "</p><p>" + rep(30, "Another paragraph with sentence %d so that the article has plenty of words in it. ") + "</p></article></body></html>"
		ko := "<html>" + head + "<body><article><h2>\uc11c\uc6b8 news \ubd80\uc0b0 today</h2><p>" + rep(30, "\uc774\uac83\uc740 \ud55c\uad6d\uc5b4 \uae30\uc0ac\uc758 %d \ubc88\uc9f8 \ubb38\uc7a5\uc774\uba70 \ucda9\ubd84\ud788 \uae38\uac8c \uc791\uc131\ub418\uc5c8\uc2b5\ub2c8\ub2e4. ") + "</p><p>" + rep(30, "\ub610 \ub2e4\ub978 \ub2e8\ub77d\uc758 %d \ubc88\uc9f8 \ubb38\uc7a5\uc73c\ub85c \uae30\uc0ac\uc5d0 \ub2e8\uc5b4\uac00 \ub9ce\uc774 \ub4e4\uc5b4 \uc788\uc2b5\ub2c8\ub2e4. ") + "</p></article></body></html>"
		zh := "<html>" + head + "<body><article><h2>\uc11c\uc6b8 news \ubd80\uc0b0 today</h2><p>" + rep(30, "\u8fd9\u662f\u4e2d\u6587\u7248\u672c\u7684\u7b2c %d \u4e2a\u53e5\u5b50\uff0c\u5b83\u8db3\u591f\u957f\u4e86\u3002") + "</p><p>" + rep(30, "\u53e6\u4e00\u6bb5\u7684\u7b2c %d \u4e2a\u53e5\u5b50\uff0c\u6587\u7ae0\u91cc\u6709\u5f88\u591a\u5b57\u3002") + "</p></article></body></html>"
		other := "<html><head><meta charset=\"utf-8\"><title>Something else entirely</title></head><body><article><h1>Unrelated</h1><p>" + rep(30, "An unrelated page with sentence number %d, which only has to be long enough as well. ") + "</p></article></body></html>"
		return []c11Call{{en, "", 0, 0, "apply-nil"}, {ko, "", 0, 0, "apply-nil"}, {zh, "", 0, 0, "apply-nil"}, {other, "", 0, 0, "apply-nil"}, {ko, "", 0, 0, "reader-nil"}, {en, "", 0, 0, "reader-nil"}}
	}
	if name == "meta" {
		// pages whose metadata parsers take different paths: a stateful parser (pooled, cached) would
		// carry flags from one page to the next
		og := func(typ string, complete bool, extra string) string {
			h := "<meta property=\"og:type\" content=\"" + typ + "\"><meta property=\"og:title\" content=\"OG " + typ + " title\"><meta property=\"og:url\" content=\"http://og.example/" + typ + "\">"
			if complete {
				h += "<meta property=\"og:image\" content=\"http://og.example/i.jpg\">"
			}
			return h + extra
		}
		page := func(head, body string) string {
			t := &ora.Tok{}
			return "<html><head><title>" + ora.DefaultTitle + "</title>" + head + "</head><body><div class=\"main\"><p>" + t.W(21) + "</p>" + body + "<p>" + t.W(22) + "</p><p>" + t.W(23) + "</p></div></body></html>"
		}
		prof := "<meta property=\"profile:first_name\" content=\"Jane\"><meta property=\"profile:last_name\" content=\"Doe\">"
		art := "<meta property=\"article:author\" content=\"Art Author\"><meta property=\"article:section\" content=\"Art Section\">"
		ie := "<div><span class=\"byline-name\">IE Author</span></div><div class=\"dateline\">IE date</div>"
		sc := "<div itemscope itemtype=\"http://schema.org/Article\"><span itemprop=\"headline\">SC headline</span><span itemprop=\"author\">SC Author</span></div>"
		docs := []string{
			page(og("profile", false, prof), ie),
			page(og("profile", true, prof), ie),
			page(og("website", true, prof), ie),
			page(og("article", true, art), sc),
			page(og("article", false, art), sc+ie),
			page(og("website", true, art), sc),
			page("", sc+ie),
			page("<meta name=\"IE_RM_OFF\" content=\"true\">"+og("article", true, art), sc),
			strings.Replace(page(strings.ReplaceAll(og("article", true, art), "og:", "ogp:"), sc), "<html>", "<html xmlns:ogp=\"http://ogp.me/ns#\">", 1),
		}
		var m []c11Call
		for _, d := range docs {
			m = append(m, c11Call{d, "", 0, 0, "reader-nil"})
		}
		return m
	}
	m2 := &ora.DocModel{Skel: "S2", Top: append(append([]int{}, s[1].Top...), ora.AtomIndex(atoms, "PAGER")...), ArtC: append(append([]int{}, s[1].ArtC...), ora.AtomIndex(atoms, "TBLd", "FIG", "YTq")...)}
	d2 := m2.Render(atoms)
	d3 := c11PagerDoc([]int{0, 0, 1, 1, 1}, 4)
	m4 := &ora.DocModel{Skel: "S1", Top: append(ora.AtomIndex(atoms, "VID", "TBLd", "IMG"), s[0].Top...), ArtC: s[0].ArtC}
	d4 := m4.Render(atoms)
	return []c11Call{
		{d1, "", 0, 0, "apply"},
		{d2, c13URL, 0, 0, "apply"},
		{d2, c13URL, 1, 30, "reader"},
		{d3, "http://example.com/story?p=4", 1, 0, "apply"},
		{d3, "http://example.com/story?page=4", 0, 8, "file"},
		{d1, "http://example.com/x", 1, 0, "reader"},
		{d4, "", 0, 0, "apply-nil"},
		{d2, "http://example.com/fetched/story?page=2", 0, 0, "url-nil"},
		{d1, "", 0, 0, "reader-nil"},
		{c11TitlePage("Short", "First Page Heading With Six Words"), "", 0, 0, "reader-nil"},
		{c11TitlePage("Short", "Second Completely Different Heading Of The Page"), "", 0, 0, "reader-nil"},
		{c11StylePage(true), "", 0, 0, "reader-nil"},
		{c11StylePage(false), "", 0, 0, "reader-nil"},
	}
}

func c11TitlePage(title, h1 string) string {
	t := &ora.Tok{}
	return "<html><head><title>" + title + "</title></head><body><div class=\"main\"><h1>" + h1 + "</h1><p>" + t.W(22) + "</p><p>" + t.W(23) + "</p><p>" + t.W(21) + "</p></div></body></html>"
}

// c11StylePage: the same inline style value on a block element and on inline elements, in either order
func c11StylePage(blockFirst bool) string {
	t := &ora.Tok{}
	blk := "<div style=\"color: #c00\"><p>" + t.W(21) + "</p></div>"
	inl := "<p>" + t.W(12) + " <span style=\"color: #c00\">" + t.W(2) + "</span> " + t.W(2) + " <a style=\"color: #c00\" href=\"/x\">" + t.W(3) + "</a></p>"
	body := inl + "<p>" + t.W(22) + "</p>" + blk
	if blockFirst {
		body = blk + "<p>" + t.W(22) + "</p>" + inl
	}
	return "<html><head><title>" + ora.DefaultTitle + "</title></head><body><div class=\"main\">" + body + "<p>" + t.W(20) + "</p></div></body></html>"
}

func c11DoCall(cl c11Call, tmpdir string) (string, error) {
	c := &eng.Case{HTML: cl.html, URL: cl.url, Algo: cl.algo, Flags: cl.flags}
	var res *distiller.Result
	var err error
	var pi *eng.PanicInfo
	switch cl.entry {
	case "apply-nil":
		doc, perr := dom.Parse(strings.NewReader(cl.html))
		if perr != nil {
			return "", perr
		}
		pi = eng.Protect(func() { res, err = distiller.Apply(doc, nil) })
	case "reader-nil":
		pi = eng.Protect(func() { res, err = distiller.ApplyForReader(strings.NewReader(cl.html), nil) })
	case "url-nil":
		old := http.DefaultTransport
		http.DefaultTransport = &stubTransport{body: cl.html}
		pi = eng.Protect(func() { res, err = distiller.ApplyForURL(cl.url, 5*time.Minute, nil) })
		http.DefaultTransport = old
	case "apply":
		doc, perr := dom.Parse(strings.NewReader(cl.html))
		if perr != nil {
			return "", perr
		}
		pi = eng.Protect(func() { res, err = distiller.Apply(doc, ora.Opts(c)) })
	case "reader":
		pi = eng.Protect(func() { res, err = distiller.ApplyForReader(strings.NewReader(cl.html), ora.Opts(c)) })
	case "file":
		f := filepath.Join(tmpdir, "in.html")
		if werr := os.WriteFile(f, []byte(cl.html), 0o644); werr != nil {
			return "", werr
		}
		pi = eng.Protect(func() { res, err = distiller.ApplyForFile(f, ora.Opts(c)) })
	}
	if pi != nil {
		return "", fmt.Errorf("panic %s", pi.Sig())
	}
	if err != nil {
		return "ERR:" + err.Error(), nil
	}
	return fullKey(res), nil
}

// HistoryMain is the body of the `-history` sub-mode: it performs the calls of the history in a
// fresh process and prints the canonical result of each call plus the package-variable writes seen.
func HistoryMain(arg string) int {
	name, seq := "main", arg
	if i := strings.Index(arg, ":"); i >= 0 {
		name, seq = arg[:i], arg[i+1:]
	}
	menu := c11MenuNamed(name)
	tmp, err := os.MkdirTemp("", "c11h-")
	if err != nil {
		fmt.Fprintln(os.Stderr, err)
		return 2
	}
	defer os.RemoveAll(tmp)
	writes := map[string]int{}
	verifrt.Hook = func(kind, site, arg int, write bool, n *html.Node) {
		if kind == verifrt.KVar && write && arg < len(verifrt.Vars) {
			writes[verifrt.Vars[arg]]++
		}
	}
	verifrt.Budget = 0
	verifrt.On = true
	var out []string
	for _, s := range strings.Split(seq, ",") {
		var i int
		fmt.Sscan(s, &i)
		k, err := c11DoCall(menu[i], tmp)
		if err != nil {
			k = "FAILED:" + err.Error()
		}
		out = append(out, k)
	}
	verifrt.On = false
	b, _ := json.Marshal(map[string]any{"results": out, "writes": writes})
	os.Stdout.Write(b)
	return 0
}

func c11RunHistory(menu, seq string) ([]string, map[string]int, error) {
	cmd := exec.Command(os.Args[0], "-sub", "history", "-arg", menu+":"+seq)
	var so, se bytes.Buffer
	cmd.Stdout, cmd.Stderr = &so, &se
	if err := cmd.Run(); err != nil {
		return nil, nil, fmt.Errorf("%v: %s", err, ora.Trunc(se.String(), 300))
	}
	var r struct {
		Results []string       `json:"results"`
		Writes  map[string]int `json:"writes"`
	}
	if err := json.Unmarshal(so.Bytes(), &r); err != nil {
		return nil, nil, err
	}
	return r.Results, r.Writes, nil
}

var c11Solo = map[string]string{}

var c11InplaceURLs = []string{"http://example.com/archive/2019/part-1/", "http://example.com/stories/river/", "http://second.example/stories/river/", "https://example.com/archive/2019/part-1/page-2", "http://example.com"}

// ---- check -----------------------------------------------------------------------------------

func siteName(site int) string {
	if site < 0 || site >= len(verifrt.Sites) {
		return "?"
	}
	f := strings.Fields(verifrt.Sites[site])
	if len(f) >= 2 {
		file := f[0]
		if i := strings.LastIndex(file, ":"); i >= 0 {
			file = file[:i]
		}
		return file + ":" + f[1]
	}
	return verifrt.Sites[site]
}

func c11Check(c *eng.Case) *eng.Outcome {
	o := &eng.Outcome{}
	switch c.Kind {
	case "maporder":
		bound := 1
		if c.Get("bound") != "" {
			fmt.Sscan(c.Get("bound"), &bound)
		} else if eng.Tier == "thorough" && strings.HasPrefix(c.Get("doc"), "pager patterns") {
			bound = 2 // two deviations on the pager corpus (where the ranged maps are largest); one elsewhere
		}
		if c.P == nil {
			c.P = map[string]string{}
		}
		c.P["bound"] = fmt.Sprint(bound)
		ref := ""
		multi := false
		o.Execs = 0
		_, err := eng.Explore(bound, func(ch *eng.Chooser) {
			verifrt.MapOrder = func(site, n int) []int {
				perms := eng.PermsCached(n)
				alt := ch.Choose("map", site, len(perms), nil)
				if alt == 0 {
					return nil
				}
				return perms[alt]
			}
			defer func() { verifrt.MapOrder = nil }()
			_, res, err, pi := ora.Run(c)
			o.Execs++
			key := ""
			switch {
			case pi != nil:
				key = "PANIC " + pi.Sig()
			case err != nil:
				key = "ERR " + err.Error()
			default:
				key = fullKey(res)
			}
			if len(ch.Points) > 0 {
				multi = true
			}
			if ref == "" {
				ref = key
			} else if key != ref {
				// name the deviating map site(s)
				var sites []string
				for i, p := range ch.Points {
					if ch.Choices[i] != 0 {
						sites = append(sites, siteName(p.Site))
					}
				}
				o.V(fmt.Sprintf("maporder:%s:%s", strings.Join(sites, "+"), diffField(ref, key)),
					"result depends on map iteration order at %v (choices %v): %s; %s", sites, ch.Choices, firstDiff(ref, key), c.Get("doc"))
			}
		}, func(ch *eng.Chooser) bool { return len(o.Viol) == 0 }, eng.TimeUp)
		if err != nil {
			o.Viol = nil
			o.Skipped = "explorer: " + err.Error()
		}
		o.Nontrivial = multi && o.Execs > 1
		o.Class = fmt.Sprintf("maporder multi-key-maps=%v", multi)
	case "history":
		seq := c.Get("seq")
		menu := c.Get("menu")
		if menu == "" {
			menu = "main"
		}
		got, writes, err := c11RunHistory(menu, seq)
		if err != nil {
			o.Skipped = "history process: " + err.Error()
			return o
		}
		idx := strings.Split(seq, ",")
		o.Execs = len(idx)
		for j, s := range idx {
			var i int
			fmt.Sscan(s, &i)
			solo, ok := c11Solo[menu+":"+s]
			if !ok {
				r, _, err := c11RunHistory(menu, s)
				if err != nil || len(r) != 1 {
					o.Skipped = "solo process failed"
					return o
				}
				solo = r[0]
				c11Solo[menu+":"+s] = solo
				o.Execs++
			}
			if got[j] != solo {
				o.V(fmt.Sprintf("history:call%d-differs:%s", j, diffField(solo, got[j])), "call #%d (menu %d) of history %s differs from the same call alone in a fresh process: %s", j, i, seq, firstDiff(solo, got[j]))
			}
		}
		for v, n := range writes {
			o.Notes = append(o.Notes, fmt.Sprintf("package variable %s written after init (%d times in one history)", v, n))
		}
		o.Nontrivial = len(idx) >= 2
		o.Class = fmt.Sprintf("history len=%d", len(idx))
	case "warm":
		warm := c11OneKey(c)
		o.Execs = 2
		f, err := os.CreateTemp("", "c11one-*.json")
		if err != nil {
			o.Skipped = "tempfile"
			return o
		}
		defer os.Remove(f.Name())
		b, _ := json.Marshal(c)
		f.Write(b)
		f.Close()
		cmd := exec.Command(os.Args[0], "-sub", "one", "-arg", f.Name())
		var so bytes.Buffer
		cmd.Stdout = &so
		if err := cmd.Run(); err != nil {
			o.Skipped = "fresh process failed: " + err.Error()
			return o
		}
		if fresh := so.String(); fresh != warm {
			o.V("warm-vs-fresh:"+diffField(fresh, warm), "the result in a long-lived process (after other documents) differs from the result in a fresh process: %s; %s", firstDiff(fresh, warm), c.Get("doc"))
		}
		o.Nontrivial = true
		o.Class = "warm-vs-fresh"
	case "inplace":
		var from, to int
		fmt.Sscan(c.Get("from"), &from)
		fmt.Sscan(c.Get("to"), &to)
		doc := c11MenuNamed("url")[0].html
		u, _ := nurl.Parse(c11InplaceURLs[from])
		opts := &distiller.Options{OriginalURL: u, PaginationAlgo: distiller.PaginationAlgo(c.Algo)}
		run := func(o2 *distiller.Options) string {
			var res *distiller.Result
			var err error
			pi := eng.Protect(func() { res, err = distiller.Apply(ora.Parse(doc), o2) })
			o.Execs++
			switch {
			case pi != nil:
				return "PANIC " + pi.Sig()
			case err != nil:
				return "ERR " + err.Error()
			}
			return fullKey(res)
		}
		run(opts)
		// the caller updates its URL value in place (it owns it) and distils again
		u2, _ := nurl.Parse(c11InplaceURLs[to])
		*u = *u2
		got := run(opts)
		fresh, _ := nurl.Parse(c11InplaceURLs[to])
		want := run(&distiller.Options{OriginalURL: fresh, PaginationAlgo: distiller.PaginationAlgo(c.Algo)})
		if got != want {
			o.V("inplace-url:"+diffField(want, got), "after the caller changed its URL object in place, the result differs from a call with a freshly parsed equal URL: %s; %s", firstDiff(want, got), c.Get("doc"))
		}
		o.Nontrivial = true
		o.Class = "inplace"
	case "entry":
		cc := &eng.Case{URL: c.URL, Algo: 1}
		run := func(f func() (*distiller.Result, error)) string {
			var res *distiller.Result
			var err error
			pi := eng.Protect(func() { res, err = f() })
			o.Execs++
			switch {
			case pi != nil:
				return "PANIC " + pi.Sig()
			case err != nil:
				return "ERR " + err.Error()
			}
			return fullKey(res)
		}
		reader := func() (*distiller.Result, error) {
			return distiller.ApplyForReader(strings.NewReader(c.HTML), ora.Opts(cc))
		}
		kReader := run(reader)
		// the same bytes again: decoding the bytes must not depend on the run
		for i := 0; i < 2; i++ {
			if k2 := run(reader); k2 != kReader {
				o.V("entry:reader-not-repeatable:"+diffField(kReader, k2), "two ApplyForReader calls on the same bytes differ: %s; %s", firstDiff(kReader, k2), c.Get("doc"))
				break
			}
		}
		tmp, err := os.CreateTemp("", "c11-*.html")
		if err != nil {
			o.Skipped = "tempfile"
			return o
		}
		tmp.WriteString(c.HTML)
		tmp.Close()
		defer os.Remove(tmp.Name())
		kFile := run(func() (*distiller.Result, error) { return distiller.ApplyForFile(tmp.Name(), ora.Opts(cc)) })
		if kFile != kReader {
			o.V("entry:file-vs-reader:"+diffField(kReader, kFile), "ApplyForFile differs from ApplyForReader: %s; %s", firstDiff(kReader, kFile), c.Get("doc"))
		}
		// "the tree parsed from the same bytes" is well defined when the bytes are valid UTF-8; for
		// other input the reference parser (dom.Parse) itself picks among equally likely legacy
		// encodings by goroutine arrival order, so there is no single tree to compare with
		kApply := kReader
		if utf8.ValidString(c.HTML) {
			kApply = run(func() (*distiller.Result, error) {
				doc, err := dom.Parse(strings.NewReader(c.HTML))
				if err != nil {
					return nil, err
				}
				return distiller.Apply(doc, ora.Opts(cc))
			})
			if kReader != kApply {
				o.V("entry:reader-vs-apply:"+diffField(kApply, kReader), "ApplyForReader differs from Apply(dom.Parse): %s; %s", firstDiff(kApply, kReader), c.Get("doc"))
			}
		}
		o.Nontrivial = !strings.HasPrefix(kApply, "ERR") && !strings.HasPrefix(kApply, "PANIC")
		o.Class = "entry"
	}
	return o
}

// OneMain is the body of the `-sub one` mode: it distils the case stored in the given JSON file in
// this fresh process and prints the canonical result.
func OneMain(path string) int {
	b, err := os.ReadFile(path)
	if err != nil {
		return 2
	}
	var c eng.Case
	if json.Unmarshal(b, &c) != nil {
		return 2
	}
	os.Stdout.WriteString(c11OneKey(&c))
	return 0
}

func c11OneKey(c *eng.Case) string {
	_, res, err, pi := ora.Run(c)
	switch {
	case pi != nil:
		return "PANIC " + pi.Sig()
	case err != nil:
		return "ERR " + err.Error()
	}
	return fullKey(res)
}

func init() {
	eng.SubModes["one"] = OneMain
	eng.SubModes["history"] = HistoryMain
	eng.Register(&eng.Prop{
		ID:        "C11",
		DesignRef: "§5 C11",
		Rule: "(1) map orders: for each corpus document - pagers of 6 pages whose 5 links each follow one of 3 (quick) / 4 (thorough) URL patterns, current page 2|4 / 1..6, both algorithms; S1,S2 with <= 1 / <= 2 insertions over 22 atoms (embeds with several query parameters, multi-label blocks, schema.org item, pagers) x flags {none, all} x both algorithms - a DFS explores every execution with <= 1 non-default iteration order (<= 2 on the pager corpus in thorough) at the range-over-map sites (all permutations for <= 4 keys; descending, rotations, adjacent transpositions above); the canonical result (all fields but TimingInfo) must be identical. " +
			"(1c) warm vs fresh: every document of both corpora is distilled in the long-lived worker process (after thousands of other calls) and in a fresh process, and the two results must be equal; the same for the cross corpus (every third - thorough: second - document of an evenly spaced subset, every 2^k-th case of the quick enumeration, of the documents of C03, C04, C06, C07, C08, C14, C15, C16, C17, C18, C19 and C20). (2) histories: every sequence of <= 3 calls from a menu of 13 (document, options, entry point; two pages with the same short <title> and different h1, two pages using one inline style on block and inline elements in either order; including a page that starts with media, nil options and ApplyForURL(nil) through a stub transport), and every ordered pair from a 21-entry menu that distils two documents full of relative references (path-style and query-style pagers) under page URLs sharing hosts, directories and string prefixes, and every ordered pair (thorough: triple) from a 9-entry menu of pages whose OpenGraph/schema.org/IE metadata take different parser paths, runs in a fresh process, and every ordered pair and triple from a 6-entry menu of editions of one article in English, Korean and Chinese that share <title> and markup title (different word counters, same titles) through Apply and ApplyForReader; additionally, for every ordered pair of 5 page URLs and both algorithms, one URL object is used, overwritten in place by the caller and used again, and the second result must equal that of a freshly parsed equal URL; each call must equal the same call alone in a fresh process; package-variable writes after init are reported. (3) entry points: ApplyForReader is repeatable (three calls on the same bytes), ApplyForFile == ApplyForReader, and - for valid UTF-8 input, where the reference parse is itself well defined - ApplyForReader == Apply(dom.Parse), on all byte-token strings of <= 2 / <= 3 tokens and the corpus. " +
			"Non-trivial = an execution met a ranged map with >= 2 keys and a non-default order was explored; histories of >= 2 calls; inputs that parse.",
		Enumerate:                 c11Enumerate,
		Prepare:                   func(tier string) { CrossCorpus(tier) },
		Check:                     c11Check,
		NondeterminismIsViolation: true,
		Bounds: func(tier string) map[string]any {
			d := 1
			if tier == "thorough" {
				d = 2
			}
			return map[string]any{"map_order_deviations": d, "history_len": 3, "menu": len(c11Menu()), "perm_cap": "all permutations for <= 4 keys, else descending + rotations + adjacent transpositions"}
		},
		Assumptions: []string{"only the range-over-map statements the instrumenter rewrote are controlled (reported in instrumenter_notes when one could not be)"},
	})
}
