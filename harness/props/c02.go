package props

import (
	"fmt"

	"verif/harness/eng"
	"verif/harness/ora"
)

// C02 — distilled text is an ordered excerpt of the source.

var c02Alphabet = []string{"Pc", "Ps", "Pb", "H", "UL1", "UL3", "OL2", "ULn", "BQ", "PRE", "TBLd", "TBLl", "IMG", "FIG", "FIGl", "FIGe", "FIGch", "FIGcs", "FIGns",
	"INL", "JS1", "JS2", "BR", "HID", "HIDs", "NOS", "PIC", "DIVt", "VID", "YT", "TXT", "TBLh", "LItbl", "SIDE"}

func c02Enumerate(tier string, emit func(*eng.Case)) {
	own := withDecor(decorEvery(tier), emit)
	atoms := ora.StdAtoms
	alpha := ora.AtomIndex(atoms, c02Alphabet...)
	starts := ora.StdSkeletons(atoms)
	maxE := 2
	if tier == "thorough" {
		maxE = 3
	}
	for _, url := range []string{"", "http://example.com/a/b/story.html"} {
		e := maxE
		if tier == "thorough" && url != "" {
			e = maxE - 1 // the third edit only without page URL (the URL changes link resolution, not selection)
		}
		ora.EnumDocs(starts, alpha, e, func(d *ora.DocModel, edits int) {
			own(caseFromModel("doc", d, atoms, url))
		})
		// S3 (first extraction pass suffices): single edits, and pairs in thorough
		big := ora.BigSkeleton(atoms)
		ora.EnumDocs([]*ora.DocModel{big}, alpha, maxE-1, func(d *ora.DocModel, edits int) {
			own(caseFromModel("doc", d, atoms, url))
		})
	}
	crossEmit("C02", tier, "xdoc", 1, emit)
}

func c02Check(c *eng.Case) *eng.Outcome {
	o := &eng.Outcome{}
	a := analyse(c, o)
	if a == nil {
		return o
	}
	kept := 0
	for vi, view := range [][]string{a.TextWords, a.HTMLWords} {
		vname := []string{"text", "html"}[vi]
		seen := map[string]bool{}
		last := -1
		lastW := ""
		for _, w := range view {
			if c.Kind == "xdoc" && a.SrcDup[w] {
				continue // documents of other checks repeat words (labels, page numbers): only unique ones are ordered
			}
			pos, ok := a.SrcPos[w]
			if !ok {
				kind := "invented"
				if a.AllWords[w] {
					kind = "from-nonvisible-source"
				}
				o.V(fmt.Sprintf("%s:%s", kind, vname), "%s view contains %q which is not in the visible source text; doc %s", vname, w, c.Get("doc"))
				continue
			}
			if seen[w] {
				o.V(fmt.Sprintf("duplicate:%s:%s", vname, locus(a, w)), "%s view emits %q twice; doc %s", vname, w, c.Get("doc"))
				continue
			}
			seen[w] = true
			if pos < last {
				o.V(fmt.Sprintf("reordered:%s:%s", vname, locus(a, w)), "%s view emits %q (source position %d) after %q (position %d); doc %s", vname, w, pos, lastW, last, c.Get("doc"))
			}
			last, lastW = pos, w
		}
		if vi == 0 {
			kept = len(seen)
		}
	}
	dropped := len(a.SrcWords) - kept
	o.Nontrivial = kept >= 20 && dropped >= 1
	o.Class = fmt.Sprintf("kept=%s", pct(kept, len(a.SrcWords)))
	return o
}

func init() {
	eng.Register(&eng.Prop{
		ID:        "C02",
		DesignRef: "§5 C02",
		Rule: "docspace BFS: skeletons S1 (article), S2 (article between link-cluster chrome) with <= 2 (quick) / <= 3 (thorough) insertions of one of 34 block atoms (figures whose caption ends in a hidden element or a style element, a caption-less figure ending in a script, including bare text next to tables, tables with hidden/comment-only cells, a table inside a list item, a sidebar-classed link cluster) at every child position of body and of the article container, plus S3 (>= 520-word article) with one edit fewer; with and without page URL (thorough: the third insertion only without page URL); " +
			"every word is a unique token." + crossRule + " (there, only words that occur once in the visible source are judged). Oracle: words of Text and of the visible text of result.Node are a duplicate-free subsequence of the visible source words. Non-trivial = >= 20 words kept and >= 1 visible source word dropped.",
		Enumerate: c02Enumerate,
		Check:     c02Check,
		Prepare:   func(tier string) { CrossCorpus(tier) },
		Bounds: func(tier string) map[string]any {
			e := 2
			if tier == "thorough" {
				e = 3
			}
			return map[string]any{"decorated_variants": decorBound(tier), "max_edits": e, "atoms": len(c02Alphabet), "skeletons": []string{"S1", "S2", "S3(max_edits-1)"}, "page_urls": 2, "cross": crossBounds(tier)}
		},
	})
}
