package props

import (
	"fmt"
	nurl "net/url"
	"strings"

	"golang.org/x/net/html"
	"verif/harness/eng"
	"verif/harness/ora"
)

// C19 — third-party frames survive only for allow-listed services, with the right id.

var c19Services = []string{"youtube.com", "youtube-nocookie.com", "player.vimeo.com", "twitter.com", "vimeo.com"}
var c19Schemes = []string{"http://", "https://", "//", ""}

type hostForm struct {
	name string
	gen  func(s string) string
}

var c19HostForms = []hostForm{
	{"exact", func(s string) string { return s }},
	{"www", func(s string) string { return "www." + s }},
	{"deep-sub", func(s string) string { return "a.b." + s }},
	{"suffix-evil", func(s string) string { return s + ".evil.example" }},
	{"prefix-glued", func(s string) string { return "evil" + s }},
	{"prefix-dash", func(s string) string { return "not-" + s }},
	{"userinfo-is-service", func(s string) string { return s + "@evil.example" }},
	{"userinfo-is-evil", func(s string) string { return "evil.example@" + s }},
	{"in-path", func(s string) string { return "evil.example/" + s }},
	{"in-query", func(s string) string { return "evil.example/?u=" + s }},
	{"in-fragment", func(s string) string { return "evil.example#" + s }},
	{"port", func(s string) string { return s + ":443" }},
	{"upper", func(s string) string { return strings.ToUpper(s) }},
	{"trailing-dot", func(s string) string { return s + "." }},
	{"service-as-sub-of-evil", func(s string) string { return s + ".evil.example:80" }},
	{"userinfo-colon", func(s string) string { return "u:p@" + s }},
	{"userinfo-is-service-colon", func(s string) string { return s + ":pw@evil.example" }},
	{"userinfo-www-service-colon", func(s string) string { return "www." + s + ":443@evil.example" }},
}

var c19Paths = []string{"/embed/VID1", "/embed/VID1/", "/v/VID1", "/VID1", "/embed/", "/", "", "/video/VID1", "/embed/VID1?start=1", "/v/VID1&start=1", "/u/status/VID1", "/video/", "/embed/VID1//", "/embed/VI%22D1", "/embed/VID1%3Cb%3E"}

var c19Tags = []string{"iframe", "object-data", "object-param", "tw-blockquote", "iframe-tweet"}

const c19Page = "http://neutral.example/dir/page.html"

func c19Frame(tag, src string) string {
	esc := strings.ReplaceAll(src, "&", "&amp;")
	switch tag {
	case "iframe":
		return "<iframe src=\"" + esc + "\" width=\"400\" height=\"300\"></iframe>"
	case "object-data":
		return "<object type=\"application/x-shockwave-flash\" data=\"" + esc + "\" width=\"400\" height=\"300\"></object>"
	case "object-param":
		return "<object width=\"400\" height=\"300\"><param name=\"movie\" value=\"" + esc + "\"></object>"
	case "tw-blockquote":
		return "<blockquote class=\"twitter-tweet\"><p>tweet words here</p><a href=\"" + esc + "\">link</a></blockquote>"
	case "iframe-tweet":
		return "<iframe src=\"" + esc + "\" data-tweet-id=\"TW77\" width=\"400\" height=\"300\"></iframe>"
	}
	panic(tag)
}

func c19Doc(frames []string, where string) string {
	t := &ora.Tok{}
	pc := func() string { return "<p>" + t.W(21) + "</p>" }
	fr := strings.Join(frames, pc())
	switch where {
	case "table":
		fr = "<table><tr><th>" + t.W(1) + "</th><th>" + t.W(1) + "</th></tr><tr><td>" + t.W(1) + fr + "</td><td>" + t.W(1) + "</td></tr></table>"
	case "caption":
		fr = "<figure><img src=\"http://neutral.example/i.jpg\" width=\"400\" height=\"300\"><figcaption>" + t.W(3) + fr + "</figcaption></figure>"
	case "layout":
		fr = "<table><tr><td>" + pc() + fr + "</td></tr></table>"
	case "picture":
		fr = "<picture><source srcset=\"http://neutral.example/i.webp 1x\"><img src=\"http://neutral.example/i.jpg\" width=\"400\" height=\"300\">" + fr + "</picture>"
	case "video":
		// fallback content of a retained video: the frame after other fallback nodes
		fr = "<video src=\"http://neutral.example/v.mp4\" width=\"400\" height=\"300\">\n  <source src=\"http://neutral.example/v.webm\">\n  " + t.W(3) + "\n  " + fr + "\n</video>"
	case "video-p":
		fr = "<video src=\"http://neutral.example/v.mp4\" width=\"400\" height=\"300\"><p>" + t.W(3) + "</p>" + fr + "</video>"
	case "tweet":
		// inside a genuine tweet quotation, which is kept whole inside its placeholder
		fr = "<blockquote class=\"twitter-tweet\"><p>" + t.W(6) + "</p>" + fr + "<a href=\"https://twitter.com/someone/status/5550001\">" + t.W(2) + "</a></blockquote>"
	case "figure-picture":
		fr = "<figure><picture><img src=\"http://neutral.example/i.jpg\" width=\"400\" height=\"300\"><span>" + fr + "</span></picture><figcaption>" + t.W(3) + "</figcaption></figure>"
	}
	return "<html><head><title>" + ora.DefaultTitle + "</title></head><body><div class=\"main\">" + pc() + pc() + fr + pc() + "</div></body></html>"
}

func c19Enumerate(tier string, emit func(*eng.Case)) {
	crossEmit("C19", tier, "xframes", 1, emit)
	emit = withDecor(decorEvery(tier), emit)
	type fr struct{ sch, svc, hf, path, tag int }
	src := func(f fr) string {
		return c19Schemes[f.sch] + c19HostForms[f.hf].gen(c19Services[f.svc]) + c19Paths[f.path]
	}
	desc := func(f fr) string {
		return fmt.Sprintf("%s %s%s(%s)%s", c19Tags[f.tag], c19Schemes[f.sch], c19HostForms[f.hf].name, c19Services[f.svc], c19Paths[f.path])
	}
	var all []fr
	for sch := range c19Schemes {
		for svc := range c19Services {
			for hf := range c19HostForms {
				for p := range c19Paths {
					for tg := range c19Tags {
						all = append(all, fr{sch, svc, hf, p, tg})
					}
				}
			}
		}
	}
	for _, f := range all {
		emit(&eng.Case{Kind: "frame", URL: c19Page, HTML: c19Doc([]string{c19Frame(c19Tags[f.tag], src(f))}, "body"), P: map[string]string{"doc": desc(f)}})
	}
	// frames without a usable source on a page that itself lives on an allow-listed host
	for _, pu := range []string{"http://www.youtube.com/watch/news", "https://player.vimeo.com/video/777", "https://twitter.com/someone/status/555"} {
		for _, srcv := range []string{"", "#player", "\x00"} {
			for tg := range c19Tags {
				fr := c19Frame(c19Tags[tg], srcv)
				if srcv == "\x00" {
					fr = strings.NewReplacer(" src=\"\x00\"", "", " data=\"\x00\"", "", " href=\"\x00\"", "", " value=\"\x00\"", "").Replace(fr)
				}
				emit(&eng.Case{Kind: "frame-selfhost", URL: pu, HTML: c19Doc([]string{fr}, "body"), P: map[string]string{"doc": fmt.Sprintf("page %s, %s with source %q", pu, c19Tags[tg], srcv)}})
			}
		}
	}
	// scheme-relative and absolute sources distilled without a page URL
	for _, f := range all {
		if f.sch == 3 {
			continue
		}
		if tier != "thorough" && f.sch != 2 {
			continue
		}
		emit(&eng.Case{Kind: "frame-nourl", URL: "", HTML: c19Doc([]string{c19Frame(c19Tags[f.tag], src(f))}, "body"), P: map[string]string{"doc": "no page URL: " + desc(f)}})
	}
	// frames inside tables, captions and layout tables; pairs of frames (thorough: all host forms; quick: path fixed)
	for _, f := range all {
		if f.path != 0 && tier != "thorough" {
			continue
		}
		if f.path > 3 {
			continue
		}
		for _, where := range []string{"table", "caption", "layout", "picture", "figure-picture", "tweet", "video", "video-p"} {
			emit(&eng.Case{Kind: "frame-" + where, URL: c19Page, HTML: c19Doc([]string{c19Frame(c19Tags[f.tag], src(f))}, where), P: map[string]string{"doc": where + ": " + desc(f)}})
		}
	}
	if tier == "thorough" {
		var sub []fr
		for _, f := range all {
			if f.path == 0 && f.sch <= 1 {
				sub = append(sub, f)
			}
		}
		for i, f := range sub {
			for j := i; j < len(sub); j += 7 {
				g := sub[j]
				second := strings.ReplaceAll(strings.ReplaceAll(c19Frame(c19Tags[g.tag], src(g)), "VID1", "VID2"), "TW77", "TW78")
				emit(&eng.Case{Kind: "frame-pair", URL: c19Page, HTML: c19Doc([]string{c19Frame(c19Tags[f.tag], src(f)), second}, "body"), P: map[string]string{"doc": desc(f) + " + " + desc(g)}})
			}
		}
	}
}

// refHost: authority between "//" and the first of "/?#", minus userinfo and port.
func refHost(u string) string {
	i := strings.Index(u, "//")
	if i < 0 {
		return ""
	}
	rest := u[i+2:]
	if j := strings.IndexAny(rest, "/?#"); j >= 0 {
		rest = rest[:j]
	}
	if j := strings.LastIndex(rest, "@"); j >= 0 {
		rest = rest[j+1:]
	}
	if j := strings.LastIndex(rest, ":"); j >= 0 && !strings.Contains(rest[j:], "]") {
		rest = rest[:j]
	}
	return rest
}

var c19Allowed = map[string][]string{
	"youtube": {"youtube.com", "youtube-nocookie.com"},
	"vimeo":   {"player.vimeo.com"},
	"twitter": {"twitter.com"},
}

// frameSrc returns the source URL of a frame element of the parsed input, as the statement
// means it (iframe src; object data / movie param; last anchor of a twitter blockquote).
func frameSrc(n *html.Node) (string, string) {
	switch n.Data {
	case "iframe":
		if _, ok := ora.Attr(n, "data-tweet-id"); ok {
			return ora.AttrV(n, "src"), "iframe-tweet"
		}
		return ora.AttrV(n, "src"), "iframe"
	case "object":
		if ora.AttrV(n, "type") == "application/x-shockwave-flash" {
			return ora.AttrV(n, "data"), "object-data"
		}
		for _, p := range ora.Elements(n, "param") {
			if ora.AttrV(p, "name") == "movie" {
				return ora.AttrV(p, "value"), "object-param"
			}
		}
		return ora.AttrV(n, "data"), "object"
	case "blockquote":
		as := ora.Elements(n, "a")
		if len(as) > 0 {
			return ora.AttrV(as[len(as)-1], "href"), "tw-blockquote"
		}
	}
	return "", n.Data
}

func c19Check(c *eng.Case) *eng.Outcome {
	o := &eng.Outcome{}
	a := analyse(c, o)
	if a == nil {
		return o
	}
	var base *nurl.URL
	if c.URL != "" {
		base, _ = nurl.Parse(c.URL)
	}
	// source frames in document order
	var frames []*html.Node
	ora.Walk(a.Doc, func(n *html.Node) bool {
		if n.Type == html.ElementNode {
			if n.Data == "iframe" || n.Data == "object" || (n.Data == "blockquote" && ora.HasClass(n, "twitter-tweet")) {
				frames = append(frames, n)
				return false
			}
		}
		return true
	})
	// placeholders in document order; each is matched to the next source frame whose kind fits
	var phs []*html.Node
	ora.Walk(a.Res.Node, func(n *html.Node) bool {
		if ora.IsPlaceholder(n) {
			phs = append(phs, n)
			return false
		}
		return true
	})
	lookalike := false
	used := map[int]bool{}
	for _, ph := range phs {
		typ := ora.AttrV(ph, "data-type")
		id := ora.AttrV(ph, "data-id")
		// find the source frame: the first unused frame of the same element kind that carries the id
		var srcNode *html.Node
		inner := ""
		if ph.FirstChild != nil && ph.FirstChild.Type == html.ElementNode {
			inner = ph.FirstChild.Data
		}
		for i, f := range frames {
			if used[i] || (inner != "" && inner != f.Data) {
				continue
			}
			fs, _ := frameSrc(f)
			fsDec, derr := nurl.PathUnescape(fs)
			if derr != nil {
				fsDec = fs
			}
			if id != "" && (strings.Contains(fs, id) || strings.Contains(fsDec, id) || ora.AttrV(f, "data-tweet-id") == id) {
				srcNode = f
				used[i] = true
				break
			}
		}
		if srcNode == nil {
			o.V("placeholder-without-source", "placeholder %s/%s has no source frame; %s", typ, id, c.Get("doc"))
			continue
		}
		src, kind := frameSrc(srcNode)
		resolved := src
		if ref, err := nurl.Parse(src); err == nil && base != nil {
			resolved = base.ResolveReference(ref).String()
		}
		if strings.HasPrefix(src, "//") {
			resolved = "http:" + src
		}
		h := refHost(resolved)
		okHost := false
		for _, al := range c19Allowed[typ] {
			if h == al || strings.HasSuffix(h, "."+al) {
				okHost = true
			}
		}
		if _, known := c19Allowed[typ]; !known {
			o.V("unknown-type:"+typ, "placeholder with unknown data-type %q; %s", typ, c.Get("doc"))
			continue
		}
		if !okHost {
			o.V(fmt.Sprintf("host:%s:%s", typ, kind), "placeholder type %s for source %q whose host is %q (not allow-listed); %s", typ, src, h, c.Get("doc"))
			continue
		}
		// id rule
		want := ""
		if kind == "iframe-tweet" && typ == "twitter" {
			want = ora.AttrV(srcNode, "data-tweet-id")
		} else {
			p := resolved
			if i := strings.Index(p, "//"); i >= 0 {
				p = p[i+2:]
			}
			if i := strings.IndexByte(p, '/'); i >= 0 {
				p = p[i:]
			} else {
				p = ""
			}
			if i := strings.IndexAny(p, "?#"); i >= 0 {
				p = p[:i]
			} else if typ == "youtube" {
				if i := strings.IndexByte(p, '&'); i >= 0 && !strings.Contains(src, "?") {
					p = p[:i]
				}
			}
			segs := strings.Split(p, "/")
			for i := len(segs) - 1; i >= 0; i-- {
				if s := strings.TrimSpace(segs[i]); s != "" {
					want = s
					if dec, err := nurl.PathUnescape(s); err == nil {
						want = dec // the id is the decoded path segment
					}
					break
				}
			}
			if (typ == "youtube" && want == "embed") || (typ == "vimeo" && want == "video") {
				want = ""
			}
		}
		if id == "" || strings.Contains(id, "/") || id != want {
			o.V(fmt.Sprintf("id:%s:%s", typ, kind), "placeholder %s has data-id %q, the id in source %q is %q; %s", typ, id, src, want, c.Get("doc"))
		}
	}
	// look-alike sources present?
	for _, f := range frames {
		src, _ := frameSrc(f)
		for _, s := range c19Services {
			if strings.Contains(strings.ToLower(src), s) {
				h := refHost(src)
				if !(h == s || strings.HasSuffix(h, "."+s)) {
					lookalike = true
				}
			}
		}
	}
	// no stray frames
	ora.Walk(a.Res.Node, func(n *html.Node) bool {
		if n.Type == html.ElementNode && (n.Data == "iframe" || n.Data == "object") {
			if n.Parent != nil && ora.IsPlaceholder(n.Parent) {
				return false // the frame that the placeholder stands for
			}
			if ora.Ancestor(n, "table") == nil && ora.Ancestor(n, "figcaption") == nil {
				where := "outside a placeholder, data table or caption"
				sig := "stray-frame:" + n.Data
				for p := n.Parent; p != nil; p = p.Parent {
					if ora.IsPlaceholder(p) {
						where = "nested inside the quotation of a " + ora.AttrV(p, "data-type") + " placeholder"
						sig = "stray-frame-in-placeholder:" + n.Data
					}
				}
				o.V(sig, "<%s src=%q> in the distilled HTML %s; %s", n.Data, ora.AttrV(n, "src")+ora.AttrV(n, "data"), where, c.Get("doc"))
			}
		}
		return true
	})
	o.Nontrivial = lookalike || len(phs) > 0
	o.Class = fmt.Sprintf("placeholders=%d lookalike=%v", len(phs), lookalike)
	return o
}

func init() {
	eng.Register(&eng.Prop{
		ID:        "C19",
		DesignRef: "§5 C19",
		Rule: "source URLs = 4 schemes (http, https, scheme-relative, none) x 5 services (4 allow-listed + vimeo.com) x 18 host forms (exact, www, deep subdomain, suffix/prefix look-alikes, userinfo tricks, name in path/query/fragment, port, upper case, trailing dot) x 15 path/query shapes (ids with an escaped quote or angle brackets) x 5 tag kinds (iframe, object data, object param, twitter blockquote, rendered-tweet iframe): full product in the article body; " +
			"the frames with the 1 (quick) / 4 (thorough) leading path shapes also inside a data-table cell, a figure caption, a layout table, a <picture> that has an <img>, a figure>picture>span, the quotation of a genuine tweet, and the fallback content of a retained video; every scheme-relative (thorough: also absolute) source once more without any page URL; frames with an empty, fragment-only or missing source on pages that live on an allow-listed host; thorough adds pairs of frames." + crossRule + " Oracle: every embed placeholder maps to a source frame whose reference-parsed host is an allow-listed host of its data-type or a subdomain, with data-id = last non-empty path segment (resp. data-tweet-id); no iframe/object other than the one a placeholder stands for outside table or caption (nested ones inside a tweet quotation included). " +
			"Non-trivial = a look-alike source is present or a placeholder was produced.",
		Enumerate: c19Enumerate,
		Check:     c19Check,
		Prepare:   func(tier string) { CrossCorpus(tier) },
		Bounds: func(tier string) map[string]any {
			return map[string]any{"decorated_variants": decorBound(tier), "schemes": 4, "services": 5, "host_forms": len(c19HostForms), "paths": len(c19Paths), "tags": 5}
		},
	})
}
