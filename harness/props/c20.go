package props

import (
	"fmt"
	"regexp"
	"strings"

	distiller "github.com/markusmobius/go-domdistiller"
	"golang.org/x/net/html"
	"verif/harness/eng"
	"verif/harness/ora"
)

// C20 — unlikely-content pruning applies only if enough content remains, else fallback.

var c20Bases = []int{120, 499, 500, 501, 900}

// variants of the host page: a data table (which the converter leaves through a different path)
// before the article, so that state kept across elements would show
var c20Variants = []string{"", "table-first", "decoys", "in-bold", "noscripting"}

type c20Marker struct{ name, attr, val string }

var c20Markers = []c20Marker{
	{"class=sidebar", "class", "sidebar"},
	{"id=footer", "id", "footer"},
	{"class=menu", "class", "menu"},
	{"class=banner x", "class", "banner x"},
	{"role=navigation", "role", "navigation"},
	{"role=dialog", "role", "dialog"},
	{"class=Social-links", "class", "Social-links"},
	{"id=related", "id", "related"},
}

var c20Tags = []string{"div", "section", "ul", "p", "img", "figure", "iframe"} // the last three: the marker sits on an embeddable element itself
var c20Contents = []string{"links", "pc1", "pc3", "img"}
var c20Places = []string{"before", "between", "after", "inside", "wrap"}

type c20Sub struct{ m, tag, content, place int }

func (s c20Sub) String() string {
	return fmt.Sprintf("%s[%s]{%s}@%s", c20Tags[s.tag], c20Markers[s.m].name, c20Contents[s.content], c20Places[s.place])
}

func c20Valid(s c20Sub) bool {
	tag, content, place := c20Tags[s.tag], c20Contents[s.content], c20Places[s.place]
	if tag == "p" && (content == "pc3" || place == "wrap") {
		return false
	}
	if tag == "ul" && place == "wrap" {
		return false
	}
	if (tag == "img" || tag == "figure" || tag == "iframe") && (content != "img" || place == "wrap") {
		return false
	}
	return true
}

func c20Doc(base int, subs []c20Sub, variant string) string {
	t := &ora.Tok{}
	// article paragraphs adding up to `base` words
	var paras []string
	left := base - 30 // the trailer paragraph below holds the other 30 words
	for left > 0 {
		n := 25
		if left < 50 && left != 25 {
			n = left // last paragraph takes the remainder (between 24 and 49 words)
		}
		if n > left {
			n = left
		}
		paras = append(paras, "<p>"+t.W(n)+"</p>")
		left -= n
	}
	render := func(s c20Sub) (open, inner, close string) {
		tag := c20Tags[s.tag]
		m := c20Markers[s.m]
		open = "<" + tag + " " + m.attr + "=\"" + m.val + "\">"
		close = "</" + tag + ">"
		switch tag {
		case "img":
			return "<img " + m.attr + "=\"" + m.val + "\" src=\"http://example.com/img/" + t.U() + ".jpg\" width=\"400\" height=\"300\">", "", ""
		case "figure":
			return open, "<img src=\"http://example.com/img/" + t.U() + ".jpg\" width=\"400\" height=\"300\"><figcaption>" + t.W(4) + "</figcaption>", close
		case "iframe":
			return "<iframe " + m.attr + "=\"" + m.val + "\" src=\"http://www.youtube.com/embed/" + t.U() + "\" width=\"400\" height=\"300\">", "", "</iframe>"
		}
		item := func(x string) string {
			if tag == "ul" {
				return "<li>" + x + "</li>"
			}
			return x
		}
		switch c20Contents[s.content] {
		case "links":
			inner = item("<a href=\"http://example.com/l/" + t.U() + "\">" + t.W(2) + "</a> <a href=\"http://example.com/l/" + t.U() + "\">" + t.W(2) + "</a> <a href=\"http://example.com/l/" + t.U() + "\">" + t.W(1) + "</a>")
		case "pc1":
			if tag == "p" {
				inner = t.W(26)
			} else {
				inner = item("<p>" + t.W(26) + "</p>")
			}
		case "pc3":
			inner = item("<p>"+t.W(26)+"</p>") + item("<p>"+t.W(27)+"</p>") + item("<p>"+t.W(28)+"</p>")
		case "img":
			inner = item("<img src=\"http://example.com/img/" + t.U() + ".jpg\" width=\"400\" height=\"300\">")
			if variant == "noscripting" {
				u := t.U()
				inner = item("<figure><picture><source data-srcset=\"http://example.com/img/" + u + "-lazy.webp\" type=\"image/webp\"><img class=\"lazyload\" src=\"http://example.com/img/placeholder.gif\" alt=\"placeholder\"></picture><noscript><img src=\"http://example.com/img/" + u + "-real.jpg\" width=\"400\" height=\"300\"></noscript><figcaption>" + t.W(4) + "</figcaption></figure>")
			}
		}
		return
	}
	before, between, after, inside := "", "", "", ""
	wrapOpen, wrapClose := "", ""
	for _, s := range subs {
		o, in, c := render(s)
		switch c20Places[s.place] {
		case "before":
			before += o + in + c
		case "between":
			between += o + in + c
		case "after":
			after += o + in + c
		case "inside":
			inside += o + in + c
		case "wrap":
			wrapOpen += o
			wrapClose = c + wrapClose
			// the content of a wrapper is the article itself (plus its own content)
			inside += in
		}
	}
	var sb strings.Builder
	sb.WriteString("<html><head><title>" + ora.DefaultTitle + "</title></head><body>")
	if variant == "decoys" {
		// elements that carry the same marker values but are exempt from pruning (anchors), before
		// and after everything else; the oracle leaves them alone (c20Marked ignores anchors)
		sb.WriteString("<p>" + t.W(20))
		for _, m := range c20Markers {
			if m.attr != "role" {
				sb.WriteString(" <a " + m.attr + "=\"" + m.val + "\" href=\"http://example.com/l/" + t.U() + "\">" + t.W(1) + "</a>")
			}
		}
		sb.WriteString(" " + t.W(5) + "</p>")
	}
	if variant == "in-bold" {
		// marked elements whose ancestors include <b>, <i> or <a> (tag names that are substrings of
		// other tag names); class/id markers are pruned there like anywhere else
		sb.WriteString("<p>" + t.W(12) + " <b>" + t.W(2) + " <span class=\"sidebar\">" + t.W(3) + "</span></b> " + t.W(4) + " <i><span id=\"footer\">" + t.W(2) + "</span> " + t.W(1) + "</i> " + t.W(6) + "</p>")
		sb.WriteString("<div><b><div class=\"menu\"><p>" + t.W(26) + "</p></div></b></div>")
	}
	if variant == "table-first" {
		sb.WriteString("<p>" + t.W(24) + "</p><table><tr><th>" + t.W(1) + "</th><th>" + t.W(1) + "</th></tr><tr><td>" + t.W(1) + "</td><td>" + t.W(1) + "</td></tr><tr><td>" + t.W(1) + "</td><td>" + t.W(1) + "</td></tr></table>")
	}
	sb.WriteString(before)
	sb.WriteString(wrapOpen + "<div>")
	half := len(paras) / 2
	for i, p := range paras {
		if i == half {
			sb.WriteString(inside)
		}
		sb.WriteString(p)
	}
	sb.WriteString("</div>" + wrapClose)
	sb.WriteString(between)
	sb.WriteString("<div><p>" + t.W(30) + "</p></div>")
	sb.WriteString(after)
	if variant == "decoys" {
		sb.WriteString("<div><p>" + t.W(22))
		for _, m := range c20Markers {
			if m.attr != "role" {
				sb.WriteString(" <a " + m.attr + "=\"" + m.val + "\" href=\"http://example.com/l/" + t.U() + "\">" + t.W(2) + "</a>")
			}
		}
		sb.WriteString(" " + t.W(6) + "</p></div>")
	}
	sb.WriteString("</body></html>")
	return sb.String()
}

func c20Enumerate(tier string, emit func(*eng.Case)) {
	var all []c20Sub
	for m := range c20Markers {
		for tg := range c20Tags {
			for ct := range c20Contents {
				for pl := range c20Places {
					s := c20Sub{m, tg, ct, pl}
					if c20Valid(s) {
						all = append(all, s)
					}
				}
			}
		}
	}
	var second []c20Sub
	for _, s := range all {
		if tier == "thorough" || ((s.m == 0 || s.m == 4) && s.tag == 0 && (s.content == 0 || s.content == 2)) {
			second = append(second, s)
		}
	}
	enc := func(ss []c20Sub) string {
		var p []string
		for _, s := range ss {
			p = append(p, fmt.Sprintf("%d.%d.%d.%d", s.m, s.tag, s.content, s.place))
		}
		return strings.Join(p, ",")
	}
	desc := func(ss []c20Sub) string {
		var p []string
		for _, s := range ss {
			p = append(p, s.String())
		}
		return strings.Join(p, " + ")
	}
	for _, b := range c20Bases {
		emit(&eng.Case{Kind: "prune", P: map[string]string{"base": fmt.Sprint(b), "subs": "", "doc": fmt.Sprintf("base=%d", b)}})
		for i, s := range all {
			emit(&eng.Case{Kind: "prune", P: map[string]string{"base": fmt.Sprint(b), "subs": enc([]c20Sub{s}), "doc": fmt.Sprintf("base=%d %s", b, desc([]c20Sub{s}))}})
			emit(&eng.Case{Kind: "prune", P: map[string]string{"base": fmt.Sprint(b), "variant": "table-first", "subs": enc([]c20Sub{s}), "doc": fmt.Sprintf("base=%d table-first %s", b, desc([]c20Sub{s}))}})
			if s.content <= 1 {
				emit(&eng.Case{Kind: "prune", P: map[string]string{"base": fmt.Sprint(b), "variant": "in-bold", "subs": enc([]c20Sub{s}), "doc": fmt.Sprintf("base=%d in-bold %s", b, desc([]c20Sub{s}))}})
			}
			if c20Contents[s.content] == "img" {
				emit(&eng.Case{Kind: "prune", P: map[string]string{"base": fmt.Sprint(b), "variant": "noscripting", "subs": enc([]c20Sub{s}), "doc": fmt.Sprintf("base=%d noscripting %s", b, desc([]c20Sub{s}))}})
			}
			emit(&eng.Case{Kind: "prune", P: map[string]string{"base": fmt.Sprint(b), "variant": "decoys", "subs": enc([]c20Sub{s}), "doc": fmt.Sprintf("base=%d decoys %s", b, desc([]c20Sub{s}))}})
			for _, s2 := range second {
				if tier != "thorough" && b != 499 && b != 500 && b != 900 {
					continue
				}
				if tier == "thorough" && (i%3 != 0) && b != 500 {
					continue
				}
				ss := []c20Sub{s, s2}
				emit(&eng.Case{Kind: "prune", P: map[string]string{"base": fmt.Sprint(b), "subs": enc(ss), "doc": fmt.Sprintf("base=%d %s", b, desc(ss))}})
			}
		}
	}
}

func c20Marked(n *html.Node) bool {
	if n.Type != html.ElementNode || n.Data == "a" {
		return false // anchors are exempt from pruning (outside the statement): never treated as marked
	}
	for _, m := range c20Markers {
		if v, ok := ora.Attr(n, m.attr); ok && v == m.val {
			return true
		}
	}
	return false
}

// role survives attribute stripping, so the renamed marker itself is visible in the HTML: drop it
// from both sides before comparing.
var rxRoleAttr = regexp.MustCompile(` role="(navigation|dialog|zzneutral)"`)

func resultKey(r *distiller.Result) string {
	return fmt.Sprintf("T=%q\nW=%d\nI=%v\nX=%q\nH=%s", r.Title, r.WordCount, r.ContentImages, r.Text, rxRoleAttr.ReplaceAllString(ora.Render(r.Node), ""))
}

func firstDiff(a, b string) string {
	i := 0
	for i < len(a) && i < len(b) && a[i] == b[i] {
		i++
	}
	lo := i - 40
	if lo < 0 {
		lo = 0
	}
	ha, hb := i+60, i+60
	if ha > len(a) {
		ha = len(a)
	}
	if hb > len(b) {
		hb = len(b)
	}
	return fmt.Sprintf("at byte %d: %q vs %q", i, a[lo:ha], b[lo:hb])
}

func c20Render(c *eng.Case) string {
	var base int
	fmt.Sscan(c.Get("base"), &base)
	var subs []c20Sub
	if s := c.Get("subs"); s != "" {
		for _, p := range strings.Split(s, ",") {
			var x c20Sub
			fmt.Sscanf(p, "%d.%d.%d.%d", &x.m, &x.tag, &x.content, &x.place)
			subs = append(subs, x)
		}
	}
	return c20Doc(base, subs, c.Get("variant"))
}

func c20Check(c *eng.Case) *eng.Outcome {
	o := &eng.Outcome{Execs: 3}
	var base int
	fmt.Sscan(c.Get("base"), &base)
	var subs []c20Sub
	if s := c.Get("subs"); s != "" {
		for _, p := range strings.Split(s, ",") {
			var x c20Sub
			fmt.Sscanf(p, "%d.%d.%d.%d", &x.m, &x.tag, &x.content, &x.place)
			subs = append(subs, x)
		}
	}
	c.HTML = c20Doc(base, subs, c.Get("variant"))
	run := func(edit func(doc *html.Node)) (*distiller.Result, bool) {
		doc := ora.Parse(c.HTML)
		if c.Get("variant") == "noscripting" {
			// callers may hand Apply a tree parsed with scripting disabled (<noscript> holds elements)
			if d2, err := html.ParseWithOptions(strings.NewReader(c.HTML), html.ParseOptionEnableScripting(false)); err == nil {
				doc = d2
			}
		}
		if edit != nil {
			edit(doc)
		}
		res, err, pi := ora.Apply(doc, nil)
		if pi != nil {
			o.Skipped = pi.Sig()
			return nil, false
		}
		if err != nil || res == nil {
			o.Skipped = "error"
			return nil, false
		}
		return res, true
	}
	rD, ok := run(nil)
	if !ok {
		return o
	}
	markedHasContent := false
	rDel, ok := run(func(doc *html.Node) {
		var del []*html.Node
		ora.Walk(doc, func(n *html.Node) bool {
			if c20Marked(n) {
				del = append(del, n)
				if len(ora.Words(ora.AllText(n))) >= 20 {
					markedHasContent = true
				}
				return false
			}
			return true
		})
		for _, n := range del {
			n.Parent.RemoveChild(n)
		}
	})
	if !ok {
		return o
	}
	rNeu, ok := run(func(doc *html.Node) {
		ora.Walk(doc, func(n *html.Node) bool {
			if c20Marked(n) {
				for i := range n.Attr {
					for _, m := range c20Markers {
						if n.Attr[i].Key == m.attr && n.Attr[i].Val == m.val {
							n.Attr[i].Val = "zzneutral"
						}
					}
				}
			}
			return true
		})
	})
	if !ok {
		return o
	}
	w := rDel.WordCount
	kD := resultKey(rD)
	side := "fallback"
	if w >= 500 {
		side = "pruned"
		if k := resultKey(rDel); kD != k {
			o.V("pruned-differs-from-deleted", "rest of page yields %d words (>= 500) but the result differs from the page with the marked subtrees deleted: %s; %s", w, firstDiff(kD, k), c.Get("doc"))
		}
	} else {
		if k := resultKey(rNeu); kD != k {
			o.V("fallback-differs-from-neutral", "rest of page yields %d words (< 500) but the result differs from the page with neutral markers: %s; %s", w, firstDiff(kD, k), c.Get("doc"))
		}
	}
	o.Nontrivial = markedHasContent && len(subs) > 0
	band := "far"
	if w >= 450 && w <= 560 {
		band = "near-threshold"
	}
	o.Class = fmt.Sprintf("%s %s marked-content=%v", side, band, markedHasContent)
	return o
}

func init() {
	eng.Register(&eng.Prop{
		ID:        "C20",
		DesignRef: "§5 C20",
		Rule: "base pages of 120/499/500/501/900 words in total (article + 30-word trailer paragraph) x marked subtrees: marker {class=sidebar, id=footer, class=menu, class='banner x', role=navigation, role=dialog, class=Social-links, id=related} on {div, section, ul, p, and - the marker on an embeddable element itself - img, figure, YouTube iframe} x content {link cluster, one paragraph, three paragraphs, image} x placement {before, between, after the article, inside it, wrapping it}; all singles on all bases, each also on a page that starts with a paragraph and a data table, on a page with exempt anchors carrying the same marker values before and after the content, on a page with marked elements inside <b>/<i>, and (image content) as a lazy figure in a tree parsed with scripting disabled; pairs with a second subtree from a reduced set on bases 499/500/900 (quick) / every third first subtree with every second subtree, all on base 500 (thorough). " +
			"Oracle (metamorphic, 3 executions per case): w = WordCount of the page with marked subtrees deleted; w >= 500 => result == result of the deleted page, else == result of the page with markers renamed to a neutral value (Title, Text, HTML, WordCount, ContentImages). Non-trivial = a marked subtree holds >= 20 words.",
		Enumerate: c20Enumerate,
		Check:     c20Check,
		Bounds: func(tier string) map[string]any {
			return map[string]any{"bases": c20Bases, "markers": len(c20Markers), "tags": len(c20Tags), "contents": len(c20Contents), "placements": len(c20Places), "max_marked_subtrees": 2}
		},
		Assumptions: []string{"ASCII only; markers never on body, a, or table descendants (the statement does not cover the exemptions)"},
	})
}
