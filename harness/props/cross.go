package props

import (
	"encoding/json"
	"fmt"
	"os"
	"path/filepath"
	"strings"

	"verif/harness/eng"
	"verif/harness/ora"
)

// The cross corpus: an evenly spaced subset of the documents that the other checks enumerate in
// their quick tier. The checks whose oracle is defined for any document (C01 totality, C02 excerpt
// order, C03 whole paragraphs, C05 inert output, C06 URL resolution, C09 view agreement, C10
// caller-owned arguments, C11 warm-vs-fresh, C13 option invariance, C15 title clauses, C16
// pagination targets, C19 frames) run it as an additional sub-space, so that each of them also meets the input shapes the other checks
// were built around (pagers, frames, tables of every class, metadata blocks, hidden carriers,
// titles, marked subtrees) and not only the atoms of its own grammar.
//
// Selection is deterministic: every s-th case of a source enumeration, where s is the smallest
// power of two that leaves at most 2*target cases. The corpus is built once per harness build
// (by the parent process) and stored next to the binary.

var crossSources = []string{"C02", "C03", "C04", "C06", "C07", "C08", "C09", "C10", "C13", "C14", "C15", "C16", "C17", "C18", "C19", "C20"}

type CrossDoc struct {
	PID  string `json:"pid"`
	HTML string `json:"html"`
	URL  string `json:"url,omitempty"`
	Algo int    `json:"algo,omitempty"`
	Desc string `json:"desc"`
}

func crossTarget(tier string) int {
	if tier == "thorough" {
		return 1200
	}
	return 150
}

// crossRender gives the document of a case of a source property (some of them render it only
// inside their Check).
func crossRender(pid string, c *eng.Case) string {
	if c.HTML != "" {
		return c.HTML
	}
	switch pid {
	case "C14":
		return c14Render(c)
	case "C15":
		return c15Render(c)
	case "C18":
		return c18Render(c)
	case "C20":
		return c20Render(c)
	}
	return ""
}

func buildCross(tier string) []CrossDoc {
	target := crossTarget(tier)
	var out []CrossDoc
	for _, pid := range crossSources {
		p := eng.Registry[pid]
		if p == nil {
			continue
		}
		type pick struct {
			idx int
			d   CrossDoc
		}
		var kept []pick
		stride, i := 1, 0
		seen := map[string]bool{}
		p.Enumerate("quick", func(c *eng.Case) {
			idx := i
			i++
			if idx%stride != 0 {
				return
			}
			if strings.Contains(c.Get("doc"), "obs-") {
				return // C04's observe-only carriers: CSS spellings on whose visibility the oracle takes no side
			}
			h := crossRender(pid, c)
			if h == "" || seen[h+"\x00"+c.URL] {
				return
			}
			seen[h+"\x00"+c.URL] = true
			kept = append(kept, pick{idx, CrossDoc{PID: pid, HTML: h, URL: c.URL, Algo: c.Algo, Desc: ora.Trunc(c.Get("doc"), 160)}})
			if len(kept) > 2*target {
				stride *= 2
				k2 := kept[:0]
				for _, k := range kept {
					if k.idx%stride == 0 {
						k2 = append(k2, k)
					}
				}
				kept = k2
			}
		})
		for n, k := range kept {
			out = append(out, k.d)
			// every third document once more pretty-printed, every third with comments between its
			// blocks: real pages are indented and commented, the generated ones are not
			switch n % 3 {
			case 0:
				if h := ora.Decorate(k.d.HTML, "pretty"); h != "" {
					d := k.d
					d.HTML, d.Desc = h, "pretty-printed: "+d.Desc
					out = append(out, d)
				}
			case 1:
				if h := ora.Decorate(k.d.HTML, "comments"); h != "" {
					d := k.d
					d.HTML, d.Desc = h, "with comments: "+d.Desc
					out = append(out, d)
				}
			}
		}
	}
	return out
}

var crossMemo = map[string][]CrossDoc{}

// crossBuilding is set while the source enumerations run: a source that itself has a cross
// sub-space (C06) must not recurse into the corpus it is being asked to feed.
var crossBuilding bool

func crossPath(tier string) string {
	if d := os.Getenv("VERIF_CROSS_DIR"); d != "" {
		return filepath.Join(d, "cross-"+tier+".json")
	}
	exe, err := os.Executable()
	if err != nil {
		return ""
	}
	return filepath.Join(filepath.Dir(exe), "cross-"+tier+".json")
}

// CrossCorpus loads the stored corpus or builds (and stores) it.
func CrossCorpus(tier string) []CrossDoc {
	if tier != "thorough" {
		tier = "quick"
	}
	if v, ok := crossMemo[tier]; ok {
		return v
	}
	path := crossPath(tier)
	if path != "" {
		if b, err := os.ReadFile(path); err == nil {
			var v []CrossDoc
			if json.Unmarshal(b, &v) == nil && len(v) > 0 {
				crossMemo[tier] = v
				return v
			}
		}
	}
	crossBuilding = true
	v := buildCross(tier)
	crossBuilding = false
	crossMemo[tier] = v
	if path != "" {
		if b, err := json.Marshal(v); err == nil {
			tmp := fmt.Sprintf("%s.%d.tmp", path, os.Getpid())
			if os.WriteFile(tmp, b, 0o644) == nil {
				os.Rename(tmp, path)
			}
		}
	}
	return v
}

// crossEmit emits one case per cross document (every `every`-th one) that does not come from the
// property `self` itself, of the given kind.
func crossEmit(self, tier, kind string, every int, emit func(*eng.Case)) {
	if crossBuilding {
		return
	}
	for i, d := range CrossCorpus(tier) {
		if d.PID == self || (every > 1 && i%every != 0) {
			continue
		}
		emit(&eng.Case{Kind: kind, HTML: d.HTML, URL: d.URL, Algo: d.Algo, P: map[string]string{"doc": "cross " + d.PID + ": " + d.Desc, "src": d.PID}})
	}
}

func crossBounds(tier string) map[string]any {
	return map[string]any{"sources": crossSources, "max_docs_per_source": 2 * crossTarget(tier)}
}

const crossRule = " Cross corpus: additionally an evenly spaced subset (every 2^k-th case of the quick enumeration, 150-300 documents per source in quick, 1200-2400 in thorough; a third of them once more pretty-printed and a third once more with comments between their blocks) of the documents of the other checks (C02-C04, C06-C10, C13-C20), judged by the same oracle."
