// Package verifrt is the runtime for the hooks that /verif/tools/instr inserts into
// go-domdistiller through a `go build -overlay`. It never exists in /repo: the overlay adds it as
// a virtual package of the repository's module. Every hook first tests `On`, so an un-driven
// instrumented build behaves exactly like the original code.
package verifrt

import (
	"sort"

	"golang.org/x/net/html"
)

// Kinds of hook events.
const (
	KEnter = iota
	KTick
	KVar
	KNodeWrite
	KMapKeys
	KLock
	KUnlock
)

// Instrumented reports whether the build was produced by the instrumenter (true) or is the
// fallback overlay that only adds this package (false). Set by generated code.
var Instrumented bool

// Sites and Vars are filled by the generated file sites_gen.go.
var (
	Sites []string
	Vars  []string
	// Notes lists constructs the instrumenter could not hook faithfully (left unhooked).
	Notes []string
)

var (
	// On is the master switch.
	On bool
	// Steps counts Enter and Tick events since the last Reset; Budget==0 means unlimited.
	Steps  int64
	Budget int64
	// Hook, when non-nil, receives every event (after the step accounting).
	Hook func(kind int, site int, arg int, write bool, n *html.Node)
	// MapOrder, when non-nil, is asked for the iteration order of a ranged map with n keys
	// (n >= 2). It returns a permutation of 0..n-1 over the ascending key order, or nil for
	// ascending order.
	MapOrder func(site int, n int) []int
)

// Horizon is the panic value raised when the step budget is exceeded.
type Horizon struct{ Steps int64 }

func (h Horizon) Error() string { return "verifrt: step budget exceeded" }

// Reset clears the per-execution counters.
func Reset() { Steps = 0 }

func step() {
	Steps++
	if Budget > 0 && Steps > Budget {
		b := Steps
		Steps = 0
		panic(Horizon{b})
	}
}

func Enter(site int) {
	if !On {
		return
	}
	step()
	if Hook != nil {
		Hook(KEnter, site, 0, false, nil)
	}
}

func Tick(site int) {
	if !On {
		return
	}
	step()
	if Hook != nil {
		Hook(KTick, site, 0, false, nil)
	}
}

func Var(site int, varID int, write bool) {
	if !On {
		return
	}
	if Hook != nil {
		Hook(KVar, site, varID, write, nil)
	}
}

// NW is wrapped around every *html.Node expression that is about to be written through
// (field assignment or DOM mutator argument). It returns its argument.
func NW(site int, n *html.Node) *html.Node {
	if On && Hook != nil && n != nil {
		Hook(KNodeWrite, site, 0, true, n)
	}
	return n
}

// Lock/Unlock events are emitted by the sync shims (see shim.go).

type ordered interface {
	~int | ~int8 | ~int16 | ~int32 | ~int64 | ~uint | ~uint8 | ~uint16 | ~uint32 | ~uint64 | ~uintptr | ~float32 | ~float64 | ~string
}

// MapKeys replaces `range m`: it returns the keys of m in ascending order, or in the order
// chosen by MapOrder.
func MapKeys[K ordered, V any](site int, m map[K]V) []K {
	keys := make([]K, 0, len(m))
	for k := range m {
		keys = append(keys, k)
	}
	sort.Slice(keys, func(i, j int) bool { return keys[i] < keys[j] })
	if On {
		if Hook != nil {
			Hook(KMapKeys, site, len(keys), false, nil)
		}
		if MapOrder != nil && len(keys) >= 2 {
			if perm := MapOrder(site, len(keys)); perm != nil {
				out := make([]K, len(keys))
				for i, p := range perm {
					out[i] = keys[p]
				}
				return out
			}
		}
	}
	return keys
}

// NWs is NW for a slice of nodes.
func NWs(site int, ns []*html.Node) []*html.Node {
	if On && Hook != nil {
		for _, n := range ns {
			if n != nil {
				Hook(KNodeWrite, site, 0, true, n)
			}
		}
	}
	return ns
}
