package verifrt

import "sync"

// Shims for the sync primitives a library change might introduce. The instrumenter rewrites
// x.Lock() -> verifrt.Lock(&x) etc. Outside a scheduler-driven run they are the plain
// operations. Under the cooperative scheduler a thread that cannot take a lock yields to the
// scheduler instead of blocking the only running goroutine.

// YieldBlocked is set by the scheduler.
var YieldBlocked func()

// SyncUsed counts shim calls (reported in evidence).
var SyncUsed int64

func lockEvent(kind int, p any) {
	if !On {
		return
	}
	SyncUsed++
	if Hook != nil {
		Hook(kind, 0, lockID(p), false, nil)
	}
}

var lockIDs = map[any]int{}

func lockID(p any) int {
	if id, ok := lockIDs[p]; ok {
		return id
	}
	id := len(lockIDs) + 1
	lockIDs[p] = id
	return id
}

func Lock(m *sync.Mutex) {
	if On && YieldBlocked != nil {
		for !m.TryLock() {
			YieldBlocked()
		}
	} else {
		m.Lock()
	}
	lockEvent(KLock, m)
}

func Unlock(m *sync.Mutex) {
	lockEvent(KUnlock, m)
	m.Unlock()
}

func RWLock(m *sync.RWMutex) {
	if On && YieldBlocked != nil {
		for !m.TryLock() {
			YieldBlocked()
		}
	} else {
		m.Lock()
	}
	lockEvent(KLock, m)
}

func RWUnlock(m *sync.RWMutex) {
	lockEvent(KUnlock, m)
	m.Unlock()
}

func RLock(m *sync.RWMutex) {
	if On && YieldBlocked != nil {
		for !m.TryRLock() {
			YieldBlocked()
		}
	} else {
		m.RLock()
	}
	lockEvent(KLock, m)
}

func RUnlock(m *sync.RWMutex) {
	lockEvent(KUnlock, m)
	m.RUnlock()
}

type onceState struct{ running, done bool }

var onceStates = map[*sync.Once]*onceState{}

// OnceDo is o.Do(f). Under the scheduler a second thread arriving while f runs yields until f
// has finished instead of blocking inside sync.Once. Passing a Once is modelled as acquiring a
// lock that is never released (everything after it is ordered after f).
func OnceDo(o *sync.Once, f func()) {
	if !(On && YieldBlocked != nil) {
		if On {
			lockEvent(KLock, o)
		}
		o.Do(f)
		return
	}
	st := onceStates[o]
	if st == nil {
		st = &onceState{}
		onceStates[o] = st
	}
	for st.running {
		YieldBlocked()
	}
	lockEvent(KLock, o)
	if st.done {
		return
	}
	st.running = true
	defer func() { st.running = false; st.done = true }()
	o.Do(f)
}
